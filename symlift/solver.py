"""Solver bridge: one persistent `z3 -in` process per engine instance.

AIG nodes are append-only, so node definitions (declared constant + asserted equality) are sent once, at the base
level, the first time a node is in the cone of a query; each query is push / assert / check-sat /
get-value / pop.  Any `(error` line, `unknown` or a time-out is reported as 'unknown' -- never as
unsat.  Every query can be exported as a stand-alone SMT-LIB file for the second-solver cross check.
"""
import os
import shutil
import subprocess
import time

from .bdag import TRUE, FALSE


def _z3_binary():
    import sys
    for cand in (os.environ.get('VERIF_Z3'), os.path.join(sys.prefix, 'bin', 'z3'), 'z3-new', '/opt/veriftools/pyvenv/bin/z3', 'z3'):
        if cand and shutil.which(cand):
            return shutil.which(cand)
    raise RuntimeError('no z3 binary found')


class Stats:
    def __init__(self):
        self.queries = 0
        self.sat = 0
        self.unsat = 0
        self.unknown = 0
        self.trivial = 0
        self.solver_s = 0.0
        self.max_query_s = 0.0
        self.nodes_sent = 0
        self.cross_done = 0         # queries re-decided by a second solver binary (sample)
        self.cross_agree = 0
        self.cross_unknown = 0
        self.cross_disagree = 0


class PipeSolver:
    def __init__(self, dag, timeout_s=120):
        self.dag = dag
        self.timeout_s = timeout_s
        self.stats = Stats()
        self.proc = None
        self.defined = set()      # node ids already declared/defined in the solver
        self.varnodes = []        # declared variable node ids (order of declaration)
        self.keep = []            # exported query texts (for cross checks) when enabled
        self.keep_queries = False

    # ------------------------------------------------------------------ process
    def _start(self):
        self.proc = subprocess.Popen([_z3_binary(), '-in', '-smt2'], stdin=subprocess.PIPE, stdout=subprocess.PIPE,
                                     stderr=subprocess.STDOUT, text=True, bufsize=1 << 20)
        self.defined = set()
        self.varnodes = []
        self._send('(set-option :print-success false)\n(set-logic QF_UF)\n')

    def close(self):
        if self.proc is not None:
            try:
                self.proc.stdin.close()
                self.proc.kill()
                self.proc.wait(timeout=5)
            except Exception:
                pass
            self.proc = None

    def _send(self, text):
        if os.environ.get('VERIF_SOLVER_LOG'):
            with open(os.environ['VERIF_SOLVER_LOG'], 'a') as f:
                f.write(text)
        self.proc.stdin.write(text)

    def _readline(self):
        line = self.proc.stdout.readline()
        if line == '':
            raise RuntimeError('z3 process ended unexpectedly')
        return line.strip()

    # ------------------------------------------------------------------ encoding
    def _name(self, n):
        return 'n%d' % n

    def _lit(self, l):
        if l == TRUE:
            return 'true'
        if l == FALSE:
            return 'false'
        s = 'n%d' % (l >> 1)
        return '(not %s)' % s if l & 1 else s

    def _define(self, roots):
        """send definitions for all not-yet-defined nodes in the cone of roots"""
        nodes = self.dag.nodes
        defined = self.defined
        out = []
        stack = [r >> 1 for r in roots]
        while stack:
            n = stack.pop()
            if n >= 0:
                if n == 0 or n in defined:
                    continue
                nd = nodes[n]
                if nd[0] == 'var':
                    defined.add(n)
                    self.varnodes.append(n)
                    out.append('(declare-const n%d Bool)' % n)
                else:
                    a, b = nd[1] >> 1, nd[2] >> 1
                    if (a == 0 or a in defined) and (b == 0 or b in defined):
                        defined.add(n)
                        out.append('(declare-const n%d Bool)\n(assert (= n%d (and %s %s)))' % (n, n, self._lit(nd[1]), self._lit(nd[2])))
                    else:
                        stack.append(~n)
                        stack.append(a)
                        stack.append(b)
            else:
                n = ~n
                if n in defined:
                    continue
                nd = nodes[n]
                defined.add(n)
                out.append('(declare-const n%d Bool)\n(assert (= n%d (and %s %s)))' % (n, n, self._lit(nd[1]), self._lit(nd[2])))
        if out:
            self.stats.nodes_sent += len(out)
            self._send('\n'.join(out) + '\n')

    def export(self, asserts):
        """stand-alone SMT-LIB text of one query (cone only). Nodes are declared constants tied to
        their definition by asserted equalities (Tseitin style): z3 parses this in linear time,
        whereas nested define-fun macros took minutes on cones of a few 100k nodes (measured)."""
        order = self.dag.cone(asserts)
        nodes = self.dag.nodes
        out = ['(set-logic QF_UF)']
        for n in order:
            out.append('(declare-const n%d Bool)' % n)
        for n in order:
            nd = nodes[n]
            if nd[0] == 'and':
                out.append('(assert (= n%d (and %s %s)))' % (n, self._lit(nd[1]), self._lit(nd[2])))
        for a in asserts:
            out.append('(assert %s)' % self._lit(a))
        out.append('(check-sat)')
        return '\n'.join(out) + '\n'

    # ------------------------------------------------------------------ queries
    def check(self, asserts, want_model=True, timeout_s=None):
        """-> ('unsat', None) | ('sat', {varname: bool}) | ('unknown', reason)"""
        st = self.stats
        for a in asserts:
            if a == FALSE:
                st.trivial += 1
                return 'unsat', None
        asserts = [a for a in asserts if a != TRUE]
        if not asserts:
            st.trivial += 1
            return 'sat', {}
        if self.proc is None or self.proc.poll() is not None:
            self._start()
        t0 = time.time()
        st.queries += 1
        if self.keep_queries:
            self.keep.append(self.export(asserts))
        tmo = timeout_s if timeout_s is not None else self.timeout_s
        try:
            self._define(asserts)
            cmd = ['(push 1)', '(set-option :timeout %d)' % int(tmo * 1000)]
            for a in asserts:
                cmd.append('(assert %s)' % self._lit(a))
            cmd.append('(check-sat)')
            self._send('\n'.join(cmd) + '\n')
            self.proc.stdin.flush()
            r = self._readline()
            while not (r.startswith('(error') or r in ('sat', 'unsat', 'unknown', 'timeout')):
                r = self._readline()
            model = None
            if r == 'sat' and want_model:
                names = ' '.join('n%d' % n for n in self.varnodes)
                self._send('(get-value (%s))\n(echo "endvalues")\n' % names)
                self.proc.stdin.flush()
                buf = []
                while True:
                    line = self._readline()
                    if line == 'endvalues':
                        break
                    buf.append(line)
                text = ' '.join(buf)
                if '(error' in text:
                    r = 'unknown'
                    model = 'solver error in get-value: ' + text[:200]
                else:
                    model = {}
                    toks = text.replace('(', ' ').replace(')', ' ').split()
                    nodes = self.dag.nodes
                    for i in range(0, len(toks) - 1, 2):
                        nid = int(toks[i][1:])
                        model[nodes[nid][1]] = (toks[i + 1] == 'true')
            self._send('(pop 1)\n')
            self.proc.stdin.flush()
        except (RuntimeError, BrokenPipeError, ValueError) as e:
            self.close()
            st.unknown += 1
            st.solver_s += time.time() - t0
            return 'unknown', 'solver process failure: %s' % e
        dt = time.time() - t0
        st.solver_s += dt
        st.max_query_s = max(st.max_query_s, dt)
        if r == 'unsat':
            st.unsat += 1
            return 'unsat', None
        if r == 'sat':
            st.sat += 1
            return 'sat', model
        st.unknown += 1
        if r.startswith('(error'):
            # the session may be in an undefined state: restart
            self.close()
        return 'unknown', (model if isinstance(model, str) else r)


def cross_check(text, which, timeout_s=60):
    """run an exported query through a second solver binary; -> 'sat' | 'unsat' | 'unknown'"""
    import tempfile
    with tempfile.NamedTemporaryFile('w', suffix='.smt2', delete=False, dir=os.environ.get('VERIF_SCRATCH') or None) as f:
        f.write(text)
        path = f.name
    try:
        if which == 'cvc5':
            cmd = ['cvc5', '--tlimit=%d' % int(timeout_s * 1000), path]
        else:
            cmd = ['/usr/bin/z3', '-T:%d' % int(timeout_s), path]
        try:
            p = subprocess.run(cmd, capture_output=True, text=True, timeout=timeout_s + 10)
        except subprocess.TimeoutExpired:
            return 'unknown'
        except OSError:             # second solver binary not present: no second opinion, not an error of the check
            return 'unknown'
        out = p.stdout.strip().split('\n')
        if '(error' in p.stdout:
            return 'unknown'
        for line in out:
            if line.strip() in ('sat', 'unsat'):
                return line.strip()
        return 'unknown'
    finally:
        os.unlink(path)


class ApiSolver(PipeSolver):
    """fresh z3 solver per query (python API, from_string on the cone of the query): lets z3 use its
    non-incremental preprocessing + SAT pipeline, which is much faster on large AIG cones than the
    incremental push/pop mode of the pipe back end"""

    def check(self, asserts, want_model=True, timeout_s=None):
        st = self.stats
        for a in asserts:
            if a == FALSE:
                st.trivial += 1
                return 'unsat', None
        asserts = [a for a in asserts if a != TRUE]
        if not asserts:
            st.trivial += 1
            return 'sat', {}
        import z3
        t0 = time.time()
        st.queries += 1
        text = self.export(asserts)
        if self.keep_queries:
            self.keep.append(text)
        text = text[:-len('(check-sat)\n')]
        tmo = timeout_s if timeout_s is not None else self.timeout_s
        try:
            s = z3.Solver()
            s.set('timeout', int(tmo * 1000))
            s.from_string(text)
            r = s.check()
        except z3.Z3Exception as e:
            st.unknown += 1
            st.solver_s += time.time() - t0
            return 'unknown', 'z3 exception: %s' % str(e)[:200]
        dt = time.time() - t0
        st.solver_s += dt
        st.max_query_s = max(st.max_query_s, dt)
        # second solver: a sample of the decided queries of every job is exported as stand-alone SMT-LIB and decided again by
        # the /usr/bin/z3 4.8.12 binary (and by cvc5 when VERIF_CROSSCHECK_CVC5=1); a disagreement makes the query
        # inconclusive (never a pass, never a violation); a second solver that does not answer in time counts as 'unknown'
        cc = int(os.environ.get('VERIF_CROSSCHECK', '0') or 0)
        if cc and st.cross_done < cc and r in (z3.sat, z3.unsat) and len(text) < 4000000:
            st.cross_done += 1
            for which in (['z3-4.8.12', 'cvc5'] if os.environ.get('VERIF_CROSSCHECK_CVC5') else ['z3-4.8.12']):
                r2 = cross_check(text + '(check-sat)\n', which, timeout_s=20)
                if r2 == 'unknown':
                    st.cross_unknown += 1
                elif r2 != str(r):
                    st.cross_disagree += 1
                    st.unknown += 1
                    return 'unknown', 'solver disagreement: z3 5.1 says %s, %s says %s' % (r, which, r2)
                else:
                    st.cross_agree += 1
        if r == z3.unsat:
            st.unsat += 1
            return 'unsat', None
        if r == z3.sat:
            st.sat += 1
            model = None
            if want_model:
                m = s.model()
                nodes = self.dag.nodes
                model = {}
                for dcl in m.decls():
                    nd = nodes[int(dcl.name()[1:])]
                    if nd[0] == 'var':
                        model[nd[1]] = bool(m[dcl])
            return 'sat', model
        st.unknown += 1
        return 'unknown', s.reason_unknown()

    def close(self):
        pass


def make_solver(dag):
    kind = os.environ.get('VERIF_SOLVER', 'api')
    return PipeSolver(dag) if kind == 'pipe' else ApiSolver(dag)
