"""Lifted (predicated, state-merging) execution engine -- prototype.

Values:  concrete python values | SB (symbolic bool) | U (guarded union of concrete alternatives)
         | GSet / GDict / GList (mutable cells with guarded structure) | FSet (immutable guarded set)
All guards are literals of one BDag.
"""
import itertools as _it
import collections as _co
from .bdag import BDag, TRUE, FALSE, RandomEvaluator
from .solver import make_solver


import os as _os, sys
_TRACE = _os.environ.get('SYMLIFT_TRACE')

class LiftError(Exception):
    pass


class Unsupported(LiftError):
    pass


class _Undef:
    def __repr__(self):
        return 'UNDEF'


UNDEF = _Undef()


class Bottom:
    """value on paths that already failed (never observed on live paths)"""
    def __repr__(self):
        return 'BOTTOM'


BOTTOM = Bottom()


class SB:
    __slots__ = ('lit',)

    def __init__(self, lit):
        self.lit = lit

    def __bool__(self):
        raise Unsupported('implicit bool() of symbolic bool')

    def __repr__(self):
        return 'SB(%d)' % self.lit


class U:
    """guarded union: alts = [(lit, value)], guards mutually exclusive, values concrete/objects"""
    __slots__ = ('alts',)

    def __init__(self, alts):
        object.__setattr__(self, 'alts', alts)

    def __bool__(self):
        raise Unsupported('implicit bool() of union')

    def __hash__(self):
        raise Unsupported('hash() of union')

    def __index__(self):
        raise Unsupported('index() of union')

    def __iter__(self):
        raise Unsupported('native iteration over union')

    def __getattr__(self, name):
        if name.startswith('__'):
            raise AttributeError(name)
        return E.lift_attr(self, name)

    def __setattr__(self, name, value):
        raise Unsupported('setattr on union (use hook)')

    def __repr__(self):
        return 'U(%s)' % ', '.join('%d:%r' % a for a in self.alts)


def is_sym(x):
    return isinstance(x, (SB, U, GSet, GDict, GList, FSet, GStr))


_PRIM = (str, int, float, bool, type(None), bytes)


def _same(a, b):
    if a is b:
        return True
    if type(a) is not type(b):
        # Terminal('a') vs Variable('a') are different values for merging purposes
        return False
    if isinstance(a, _PRIM):
        return a == b
    if isinstance(a, tuple):
        return len(a) == len(b) and all(_same(x, y) for x, y in zip(a, b))
    if isinstance(a, frozenset):
        return a == b
    return False


class Frame:
    def __init__(self, base):
        self.base = base
        self.rets = []        # (lit, value)
        self.returned = FALSE
        self.loops = []


class Loop:
    def __init__(self):
        self.broken = FALSE
        self.cont = FALSE


class Engine:
    def __init__(self):
        self.solver = None
        self.reset()
        self.while_bound = 64
        self.for_bound = 1000000

    def reset(self):
        if self.solver is not None:
            self.solver.close()
        self.dag = BDag()
        self.solver = make_solver(self.dag)
        self.rand = RandomEvaluator(self.dag)
        self.dag.sim = self.rand
        self.precheck_hits = 0
        self._sat_cache = {}
        self.prune_queries = 0
        self.gstack = []
        self.fstack = []      # parallel to gstack: literals marked 'known false' by that push
        self.false_cnt = {}   # literal -> number of active pushes that make it false
        self.narrow = {}      # boolean literal c -> (lits false when c holds, lits false when c fails)
        self.cum = [TRUE]
        self.frames = [Frame(0)]
        self.assumptions = []
        self.errors = []     # (lit, kind, msg)
        self.dead = FALSE
        self.nchoice = 0
        self.unwind = []     # (lit, where)  -- loop bound exceeded obligations
        self.solver_calls = 0

    # ---- guards -----------------------------------------------------
    def g(self):
        return self.dag.and_(self.cum[-1], self.dead ^ 1)

    def push(self, lit):
        self.gstack.append(lit)
        self.cum.append(self.dag.and_(self.cum[-1], lit))
        marked = []
        if lit != TRUE:
            self._collect_false(lit, marked, 0)
            fc = self.false_cnt
            for l in marked:
                fc[l] = fc.get(l, 0) + 1
        self.fstack.append(marked)

    def pop(self):
        self.gstack.pop()
        self.cum.pop()
        fc = self.false_cnt
        for l in self.fstack.pop():
            c = fc[l] - 1
            if c:
                fc[l] = c
            else:
                del fc[l]

    def _collect_false(self, p, out, depth):
        """literals that are certainly false on every path on which p holds (structural facts only)"""
        out.append(p ^ 1)
        nr = self.narrow.get(p)
        if nr:
            out.extend(nr[0])
        nr = self.narrow.get(p ^ 1)
        if nr:
            out.extend(nr[1])
        if not (p & 1) and depth < 6:
            nd = self.dag.nodes[p >> 1]
            if nd is not None and nd[0] == 'and':
                self._collect_false(nd[1], out, depth + 1)
                self._collect_false(nd[2], out, depth + 1)

    def known_false(self, g, depth=0):
        if g == FALSE:
            return True
        if g == TRUE:
            return False
        if g in self.false_cnt:
            return True
        if not (g & 1) and depth < 4:
            nd = self.dag.nodes[g >> 1]
            if nd[0] == 'and':
                return self.known_false(nd[1], depth + 1) or self.known_false(nd[2], depth + 1)
        return False

    def feasible(self, g):
        """False only if g cannot hold on the current path (syntactic folding or path facts)"""
        if g == FALSE or self.known_false(g):
            return False
        return self.dag.and_(g, self.g()) != FALSE

    def concrete(self):
        """context in which lifted code runs as plain concrete code (no path condition): used for protocol
        methods (__hash__, __eq__, __str__, __lt__) of fully concrete objects, whose result cannot depend on
        the path on which a native caller (dict lookup, sorted, format) happens to invoke them"""
        return _Concrete(self)

    def sat_guard_global(self, g):
        """like sat_guard but independent of the current path (for pruning persistent cells)"""
        if g == FALSE:
            return False
        if g == TRUE:
            return True
        key = ('G', g)
        r = self._sat_cache.get(key)
        if r is None:
            if self.rand.witness(self.assumptions + [g]) is not None:
                r = True
            elif self.rand.exact:
                r = False
            else:
                self.prune_queries += 1
                res, _ = self.solver.check(self.assumptions + [g], want_model=False, timeout_s=30)
                r = res != 'unsat'
            self._sat_cache[key] = r
        return r

    def prune_global(self, alts, threshold=8):
        if len(alts) <= threshold:
            return alts
        return [(g, v) for g, v in alts if self.sat_guard_global(g)]

    def sat_guard(self, g):
        """False only if g is proven unsatisfiable on the current path (random models first, then the
        solver); used to prune alternatives at points where enumeration would otherwise explode"""
        if g == FALSE or self.known_false(g):
            return False
        full = self.dag.and_(g, self.g())
        if full == FALSE:
            return False
        if full == TRUE:
            return True
        r = self._sat_cache.get(full)
        if r is None:
            if self.rand.witness(self.assumptions + [full]) is not None:
                r = True
            elif self.rand.exact:
                r = False
            else:
                self.prune_queries += 1
                res, _ = self.solver.check(self.assumptions + [full], want_model=False, timeout_s=30)
                r = res != 'unsat'
            self._sat_cache[full] = r
        return r

    def prune(self, alts, threshold=8):
        if len(alts) <= threshold:
            return alts
        return [(g, v) for g, v in alts if self.sat_guard(g)]

    def note_bool(self, c, true_guards, false_guards):
        """c == OR(true_guards), all guards mutually exclusive: remember what c decides"""
        if c in (TRUE, FALSE) or (not true_guards and not false_guards):
            return
        if c not in self.narrow and len(self.narrow) < 2000000:
            self.narrow[c] = (tuple(false_guards), tuple(true_guards))

    def local(self):
        fr = self.frames[-1]
        return self.dag.all_(self.gstack[fr.base:])

    def fresh(self, name=None):
        return self.dag.var(name)

    def fail(self, lit, kind, msg=''):
        """record that an error happens under lit (already conjoined with guard)"""
        if lit == FALSE or self.known_false(lit):
            return
        if _TRACE and _TRACE in str(msg):       # development aid: SYMLIFT_TRACE=<substring of the message>
            import traceback
            traceback.print_stack(limit=25)
            if sys.exc_info()[0] is not None:
                traceback.print_exc()
        lit = self.dag.and_(lit, self.dead ^ 1)
        if lit == FALSE:
            return
        self.errors.append((lit, kind, msg))
        self.dead = self.dag.or_(self.dead, lit)

    # ---- value helpers ---------------------------------------------
    def alts(self, x):
        """[(lit, concrete-or-object)] for any value; SB -> True/False alternatives"""
        if isinstance(x, U):
            return x.alts
        if isinstance(x, SB):
            return [(x.lit, True), (x.lit ^ 1, False)]
        return [(TRUE, x)]

    def mk(self, alts):
        """build a value from [(lit, value)] (values may themselves be U/SB)"""
        d = self.dag
        flat = []
        for g, v in alts:
            if g == FALSE:
                continue
            if isinstance(v, (U, SB)):
                for h, w in self.alts(v):
                    gh = d.and_(g, h)
                    if gh != FALSE:
                        flat.append((gh, w))
            else:
                flat.append((g, v))
        out = []
        for g, v in flat:
            if v is BOTTOM:
                continue
            for i, (h, w) in enumerate(out):
                if _same(v, w):
                    out[i] = (d.or_(h, g), w)
                    break
            else:
                out.append((g, v))
        if not out:
            return BOTTOM
        if len(out) == 1:
            return out[0][1]
        if all(type(v) is bool for _, v in out):
            c = d.any_(g for g, v in out if v)
            self.note_bool(c, [g for g, v in flat if v is True], [g for g, v in flat if v is False])
            return SB(c)
        return U(out)

    def merge(self, c, a, b):
        if c == TRUE or b is UNDEF:
            return a
        if c == FALSE or a is UNDEF:
            return b
        if a is b:
            return a
        if a is BOTTOM:
            return b
        if b is BOTTOM:
            return a
        if isinstance(a, (SB, bool)) and isinstance(b, (SB, bool)):
            return self.sb(self.dag.ite(c, self.lit(a), self.lit(b)))
        return self.mk([(c, a), (c ^ 1, b)])

    def sb(self, lit):
        if lit == TRUE:
            return True
        if lit == FALSE:
            return False
        return SB(lit)

    def lit(self, x):
        """truthiness literal"""
        if x is True:
            return TRUE
        if x is False or x is None:
            return FALSE
        if isinstance(x, SB):
            return x.lit
        if isinstance(x, U):
            return self.dag.any_(self.dag.and_(g, self.lit(v)) for g, v in x.alts)
        if isinstance(x, (GSet, FSet, GDict, GList, GStr)):
            return x.nonempty()
        if x is BOTTOM:
            return FALSE
        return TRUE if x else FALSE

    def inst(self, x):
        out = self._inst(x)
        if len(out) > 1:
            seen = {}
            ded = []
            for g, v in out:
                k = canon(v)
                if k in seen:
                    i = seen[k]
                    ded[i] = (self.dag.or_(ded[i][0], g), ded[i][1])
                else:
                    seen[k] = len(ded)
                    ded.append((g, v))
            out = self.prune(ded, 512)
        return out

    def _inst_nopath(self, x):
        out = self._inst(x)
        if len(out) > 1:
            seen = {}
            ded = []
            for g, v in out:
                k = canon(v)
                if k in seen:
                    i = seen[k]
                    ded[i] = (self.dag.or_(ded[i][0], g), ded[i][1])
                else:
                    seen[k] = len(ded)
                    ded.append((g, v))
            out = ded
        return out

    def _inst(self, x):
        """instantiate to [(lit, fully concrete hashable-ish value)]"""
        d = self.dag
        if isinstance(x, (U, SB)):
            out = []
            for g, v in self.alts(x):
                for h, w in self.inst(v):
                    gh = d.and_(g, h)
                    if gh != FALSE:
                        out.append((gh, w))
            return out
        if isinstance(x, tuple):
            if not any(is_sym(c) or isinstance(c, tuple) for c in x):
                return [(TRUE, x)]
            parts = [self.inst(c) for c in x]
            out = []
            for combo in _it.product(*parts):
                gg = d.all_(g for g, _ in combo)
                if gg != FALSE:
                    out.append((gg, type(x)(v for _, v in combo) if type(x) is not tuple else tuple(v for _, v in combo)))
            return out
        if isinstance(x, (FSet, GSet)):
            return x.inst_frozen()
        if isinstance(x, GList):
            return x.inst_list()
        if isinstance(x, GStr):
            return self._inst(x._flat())
        dct = getattr(x, '__dict__', None)
        if dct and getattr(type(x), '__lifted_class__', False) and any(deep_sym(v) for v in dct.values()):
            keys = list(dct)
            parts = [self.inst(dct[k]) for k in keys]
            out = []
            for combo in _it.product(*parts):
                gg = d.all_(g for g, _ in combo)
                if gg != FALSE:
                    o = object.__new__(type(x))
                    for k, (_, v) in zip(keys, combo):
                        o.__dict__[k] = v
                    out.append((gg, o))
            return out
        return [(TRUE, x)]

    def lift(self, f, args, kwargs=None):
        """call native f over all concrete instantiations of args, merge results"""
        kwargs = kwargs or {}
        d = self.dag
        parts = [self.inst(a) for a in args]
        kparts = [(k, self.inst(v)) for k, v in kwargs.items()]
        n = 1
        for p in parts:
            n *= len(p)
        for _, p in kparts:
            n *= len(p)
        if n > 4096:
            raise Unsupported('lift explosion %d for %r' % (n, f))
        res = []
        g0 = self.g()
        for combo in _it.product(*parts, *[p for _, p in kparts]):
            if any(self.known_false(g) for g, _ in combo):
                continue
            gg = d.all_(g for g, _ in combo)
            if d.and_(gg, g0) == FALSE:
                continue
            vals = [v for _, v in combo]
            a = vals[:len(parts)]
            kw = {k: v for (k, _), v in zip(kparts, vals[len(parts):])}
            try:
                r = f(*a, **kw)
            except LiftError:
                raise
            except Exception as e:
                if d.and_(gg, g0) == TRUE:
                    raise
                self.fail(d.and_(gg, g0), type(e).__name__, str(e))
                continue
            res.append((gg, wrap(r)))
        return self.mk(res)

    def lift_attr(self, u, name):
        vals = []
        g0 = self.g()
        for g, v in u.alts:
            if self.known_false(g) or self.dag.and_(g, g0) == FALSE:
                continue
            try:
                vals.append((g, getattr(v, name)))
            except AttributeError as e:
                self.fail(self.dag.and_(g, g0), 'AttributeError', str(e))
        if not vals:
            return BOTTOM
        # methods: return a lifting callable
        if all(callable(v) for _, v in vals):
            def call(*args, **kwargs):
                res = []
                for g, m in vals:
                    self.push(g)
                    try:
                        res.append((g, CALL(m, *args, **kwargs)))
                    finally:
                        self.pop()
                return self.mk(res)
            return call
        return self.mk(vals)


class _Concrete:
    def __init__(self, eng):
        self.eng = eng

    def __enter__(self):
        e = self.eng
        self.saved = (e.gstack, e.fstack, e.cum, e.dead, e.frames, e.false_cnt)
        e.gstack, e.fstack, e.cum, e.dead, e.frames, e.false_cnt = [], [], [TRUE], FALSE, [Frame(0)], {}

    def __exit__(self, et, ev, tb):
        e = self.eng
        e.gstack, e.fstack, e.cum, e.dead, e.frames, e.false_cnt = self.saved
        return False


def WRAP_DUNDERS(cls):
    import functools
    for name in ('__hash__', '__eq__', '__ne__', '__lt__', '__le__', '__gt__', '__ge__', '__str__', '__repr__'):
        f = cls.__dict__.get(name)
        if f is None or not callable(f) or getattr(f, '__wrapped_dunder__', False):
            continue

        def make(f):
            @functools.wraps(f)
            def wrapper(self, *args):
                if E.gstack and not deep_sym(self) and not any(deep_sym(a) for a in args):
                    with E.concrete():
                        return f(self, *args)
                return f(self, *args)
            wrapper.__wrapped_dunder__ = True
            wrapper.__lifted__ = True
            return wrapper
        setattr(cls, name, make(f))
    return cls


E = Engine()


def deep_sym(v, depth=0):
    if is_sym(v):
        return True
    if isinstance(v, tuple):
        return any(deep_sym(c, depth + 1) for c in v)
    dct = getattr(v, '__dict__', None)
    if dct and getattr(type(v), '__lifted_class__', False) and depth < 6:
        return any(deep_sym(c, depth + 1) for c in dct.values())
    return False


def canon(v):
    if isinstance(v, (list, tuple)):
        return (type(v).__name__,) + tuple(canon(c) for c in v)
    if isinstance(v, (frozenset, set)):
        return ('set', frozenset(canon(c) for c in v))
    if isinstance(v, _PRIM):
        return (type(v).__name__, v)
    dct = getattr(v, '__dict__', None)
    if dct is not None and getattr(type(v), '__lifted_class__', False):
        return (type(v).__name__,) + tuple((k, canon(c)) for k, c in dct.items())
    return ('id', id(v))


def PER_ALT(u, fn):
    """apply fn(value) to each alternative of union u under its guard; native exceptions become
    failures guarded by that alternative only"""
    res = []
    d = E.dag
    for g, v in u.alts:
        if not E.feasible(g):
            continue
        E.push(g)
        try:
            try:
                res.append((g, fn(v)))
            except LiftError:
                raise
            except Exception as e:
                if E.g() == TRUE:
                    raise
                E.fail(E.g(), type(e).__name__, str(e))
        finally:
            E.pop()
    return E.mk(res)


def wrap(r):
    """convert native container results into engine containers"""
    if isinstance(r, list):
        return GList([wrap(x) for x in r])
    if isinstance(r, set):
        return GSet(r)
    if isinstance(r, dict) and not isinstance(r, GDict):
        gd = GDict()
        for k, v in r.items():
            gd.m[k] = [TRUE, wrap(v)]
        return gd
    return r


# ======================================================================
# containers
# ======================================================================

def _count(lits):
    """[(lit_k, k)] : exactly k of lits true"""
    d = E.dag
    cur = [TRUE]
    for p in lits:
        nxt = [FALSE] * (len(cur) + 1)
        for k, c in enumerate(cur):
            nxt[k] = d.or_(nxt[k], d.and_(c, p ^ 1))
            nxt[k + 1] = d.or_(nxt[k + 1], d.and_(c, p))
        cur = nxt
    return E.mk([(c, k) for k, c in enumerate(cur)])


class _SetBase:
    def _items(self):
        return [(p, e) for e, p in self.m.items() if p != FALSE]

    def nonempty(self):
        return E.dag.any_(p for p in self.m.values())

    def contains(self, x):
        d = E.dag
        return d.any_(d.and_(h, self.m.get(v, FALSE)) for h, v in E.inst(x))

    def iterate(self):
        return self._items()

    def inst_frozen(self):
        d = E.dag
        out = [(TRUE, ())]
        for p, e in self._items():
            nxt = []
            for g, t in out:
                a = d.and_(g, p)
                if a != FALSE:
                    nxt.append((a, t + (e,)))
                b = d.and_(g, p ^ 1)
                if b != FALSE:
                    nxt.append((b, t))
            out = E.prune(nxt, 256)
            if len(out) > 4096:
                raise Unsupported('set instantiation explosion')
        return [(g, frozenset(t)) for g, t in out]

    def _pres(self, other):
        """presence map of another set-like value"""
        self = self or _SETBASE_DUMMY
        if isinstance(other, (GSet, FSet)):
            return other.m
        if isinstance(other, (set, frozenset)):
            return {e: TRUE for e in other}
        if isinstance(other, U):
            d = E.dag
            m = {}
            for g, v in other.alts:
                for e, p in self._pres(v).items():
                    m[e] = d.or_(m.get(e, FALSE), d.and_(g, p))
            return m
        if isinstance(other, GList) or isinstance(other, (list, tuple)):
            d = E.dag
            m = {}
            for g, x in ITER(other):
                for h, v in E.inst(x):
                    m[v] = d.or_(m.get(v, FALSE), d.and_(g, h))
            return m
        raise TypeError('unsupported operand type for a set operation: %r' % (type(other).__name__,))

    def _binop(self, other, fn, keys='both'):
        d = E.dag
        a, b = self.m, self._pres(other)
        m = {}
        for e in list(a.keys()) + [k for k in b.keys() if k not in a]:
            r = fn(a.get(e, FALSE), b.get(e, FALSE))
            if r != FALSE:
                m[e] = r
        return m

    def __or__(self, other):
        return type(self)._from(self._binop(other, E.dag.or_))

    __ror__ = __or__

    def __and__(self, other):
        return type(self)._from(self._binop(other, E.dag.and_))

    __rand__ = __and__

    def __sub__(self, other):
        return type(self)._from(self._binop(other, lambda p, q: E.dag.and_(p, q ^ 1)))

    def __rsub__(self, other):
        return GSet._from(self._binop(other, lambda p, q: E.dag.and_(q, p ^ 1)))

    def __xor__(self, other):
        return type(self)._from(self._binop(other, lambda p, q: E.dag.iff(p, q) ^ 1))

    def union(self, *others):
        r = self
        for o in others:
            if isinstance(o, GList) and False:
                pass
            r = r | o
        if r is self:
            r = self.copy()
        return r

    def intersection(self, *others):
        r = self
        for o in others:
            r = r & o
        return r

    def difference(self, *others):
        r = self
        for o in others:
            r = r - o
        return r

    def subset_lit(self, other):
        d = E.dag
        b = self._pres(other)
        return d.all_(d.or_(p ^ 1, b.get(e, FALSE)) for e, p in self.m.items())

    def eq_lit(self, other):
        d = E.dag
        b = self._pres(other)
        keys = set(self.m) | set(b)
        return d.all_(d.iff(self.m.get(e, FALSE), b.get(e, FALSE)) for e in keys)

    def issubset(self, other):
        return E.sb(self.subset_lit(other))

    def issuperset(self, other):
        return E.sb(type(self)._from(self._pres(other)).subset_lit(self))

    def isdisjoint(self, other):
        d = E.dag
        b = self._pres(other)
        return E.sb(d.any_(d.and_(p, b.get(e, FALSE)) for e, p in self.m.items()) ^ 1)

    def size(self):
        return _count([p for p in self.m.values() if p != FALSE])

    def __repr__(self):
        return '%s{%s}' % (type(self).__name__, ', '.join('%r:%d' % (e, p) for e, p in self.m.items()))


class _Dummy(_SetBase):
    m = {}


_SETBASE_DUMMY = _Dummy()


class FSet(_SetBase):
    def __init__(self, it=()):
        self.m = {}
        d = E.dag
        for g, x in ITER(it):
            for h, v in E.inst(x):
                self.m[v] = d.or_(self.m.get(v, FALSE), d.and_(g, h))

    @classmethod
    def _from(cls, m):
        r = cls.__new__(cls)
        r.m = m
        return r

    def copy(self):
        return self


class GSet(_SetBase):
    def __init__(self, it=()):
        self.m = {}
        d = E.dag
        for g, x in ITER(it):
            for h, v in E.inst(x):
                self.m[v] = d.or_(self.m.get(v, FALSE), d.and_(g, h))

    @classmethod
    def _from(cls, m):
        r = cls.__new__(cls)
        r.m = m
        return r

    def copy(self):
        return GSet._from(dict(self.m))

    def add(self, x):
        self._ver = getattr(self, '_ver', 0) + 1
        d = E.dag
        g = E.g()
        for h, v in E.inst(x):
            self.m[v] = d.or_(self.m.get(v, FALSE), d.and_(g, h))

    def discard(self, x):
        self._ver = getattr(self, '_ver', 0) + 1
        d = E.dag
        g = E.g()
        for h, v in E.inst(x):
            if v in self.m:
                self.m[v] = d.and_(self.m[v], d.and_(g, h) ^ 1)

    def remove(self, x):
        self._ver = getattr(self, '_ver', 0) + 1
        d = E.dag
        g = E.g()
        for h, v in E.inst(x):
            w = d.and_(g, h)
            E.fail(d.and_(w, self.m.get(v, FALSE) ^ 1), 'KeyError', 'set.remove(%r)' % (v,))
            if v in self.m:
                self.m[v] = d.and_(self.m[v], w ^ 1)

    def clear(self):
        self._ver = getattr(self, '_ver', 0) + 1
        d = E.dag
        g = E.g()
        for e in self.m:
            self.m[e] = d.and_(self.m[e], g ^ 1)

    def choose(self, remove):
        """nondeterministic choice of a present element (all schedules)"""
        d = E.dag
        g = E.g()
        items = self._items()
        E.fail(d.and_(g, self.nonempty() ^ 1), 'KeyError', 'pop from an empty set')
        alts = []
        none_before = TRUE
        for i, (p, e) in enumerate(items):
            later = d.any_(q for q, _ in items[i + 1:])
            if later == FALSE:
                s = TRUE
            else:
                E.nchoice += 1
                s = d.or_(E.fresh('ch%d' % E.nchoice), later ^ 1)
            chosen = d.all_([p, none_before, s])
            alts.append((chosen, e))
            none_before = d.and_(none_before, chosen ^ 1)
        if remove:
            self._ver = getattr(self, '_ver', 0) + 1
            for c, e in alts:
                self.m[e] = d.and_(self.m[e], d.and_(g, c) ^ 1)
        return E.mk(alts)

    def pop(self):
        return self.choose(True)

    def update(self, *others):
        self._ver = getattr(self, '_ver', 0) + 1
        d = E.dag
        g = E.g()
        for o in others:
            for e, p in self._pres(o).items():
                self.m[e] = d.or_(self.m.get(e, FALSE), d.and_(g, p))

    def __ior__(self, other):
        self.update(other)
        return self

    def __isub__(self, other):
        self._ver = getattr(self, '_ver', 0) + 1
        d = E.dag
        g = E.g()
        for e, p in self._pres(other).items():
            if e in self.m:
                self.m[e] = d.and_(self.m[e], d.and_(g, p) ^ 1)
        return self

    def __iand__(self, other):
        self._ver = getattr(self, '_ver', 0) + 1
        d = E.dag
        g = E.g()
        b = self._pres(other)
        for e in self.m:
            self.m[e] = d.and_(self.m[e], d.or_(g ^ 1, b.get(e, FALSE)))
        return self


def _key_inst(k):
    """dictionary keys: an object that hashes by identity (no __hash__ / __eq__ of its own, e.g. a DFA or TM used as the key of
    a per-object cache) is its own key, whatever its fields hold; everything else is instantiated to concrete values"""
    if not isinstance(k, (U, SB, tuple, GSet, FSet, GList, GStr)) and getattr(type(k), '__lifted_class__', False) \
            and type(k).__hash__ is object.__hash__:
        return [(TRUE, k)]
    return E.inst(k)


class GDict:
    def __init__(self, default_factory=None):
        self.m = {}       # key -> [presence, value]
        self.default_factory = default_factory

    def nonempty(self):
        return E.dag.any_(p for p, _ in self.m.values())

    def copy(self):
        r = GDict(self.default_factory)
        r.m = {k: [p, v] for k, (p, v) in self.m.items()}
        return r

    def contains(self, k):
        d = E.dag
        return d.any_(d.and_(h, self.m[kv][0]) for h, kv in _key_inst(k) if kv in self.m)

    def getitem(self, k):
        d = E.dag
        g = E.g()
        res = []
        for h, kv in _key_inst(k):
            ent = self.m.get(kv)
            p = ent[0] if ent else FALSE
            if p != FALSE:
                res.append((d.and_(h, p), ent[1]))
            miss = d.and_(h, p ^ 1)
            if d.and_(miss, g) != FALSE:
                if self.default_factory is not None:
                    w = d.and_(miss, g)
                    E.push(miss)
                    try:
                        dv = CALL(self.default_factory)
                    finally:
                        E.pop()
                    if ent:
                        ent[1] = E.merge(w, dv, ent[1])
                        ent[0] = d.or_(p, w)
                        dv = ent[1]
                    else:
                        self.m[kv] = [w, dv]
                    res.append((miss, dv))
                else:
                    E.fail(d.and_(miss, g), 'KeyError', repr(kv))
        return E.mk(res)

    def get(self, k, default=None):
        d = E.dag
        res = []
        for h, kv in _key_inst(k):
            ent = self.m.get(kv)
            p = ent[0] if ent else FALSE
            if p != FALSE:
                res.append((d.and_(h, p), ent[1]))
            res.append((d.and_(h, p ^ 1), default))
        return E.mk(res)

    def setdefault(self, k, default=None):
        """dict.setdefault: the stored value where the key is present; otherwise `default` is stored (under the current guard)
        and returned - the very same object, so that d.setdefault(k, []).append(x) fills the stored list"""
        d = E.dag
        g = E.g()
        res = []
        for h, kv in _key_inst(k):
            ent = self.m.get(kv)
            p = ent[0] if ent else FALSE
            if p != FALSE:
                res.append((d.and_(h, p), ent[1]))
            miss = d.and_(h, p ^ 1)
            w = d.and_(miss, g)
            if w != FALSE:
                if ent:
                    ent[1] = E.merge(w, default, ent[1])
                    ent[0] = d.or_(p, w)
                else:
                    self.m[kv] = [w, default]
                res.append((miss, default))
        return E.mk(res)

    def setitem(self, k, v):
        d = E.dag
        g = E.g()
        for h, kv in _key_inst(k):
            w = d.and_(g, h)
            if w == FALSE:
                continue
            ent = self.m.get(kv)
            if ent:
                ent[1] = E.merge(d.or_(w, ent[0] ^ 1), v, ent[1])
                ent[0] = d.or_(ent[0], w)
            else:
                self.m[kv] = [w, v]

    def delitem(self, k):
        d = E.dag
        g = E.g()
        for h, kv in _key_inst(k):
            w = d.and_(g, h)
            ent = self.m.get(kv)
            E.fail(d.and_(w, (ent[0] if ent else FALSE) ^ 1), 'KeyError', repr(kv))
            if ent:
                ent[0] = d.and_(ent[0], w ^ 1)

    def clear(self):
        d = E.dag
        g = E.g()
        for ent in self.m.values():
            ent[0] = d.and_(ent[0], g ^ 1)

    def update(self, other):
        for g, (k, v) in ITER(CALLM(other, 'items')):
            E.push(g)
            try:
                self.setitem(k, v)
            finally:
                E.pop()

    def items(self):
        return GList._guarded([(p, (k, v)) for k, (p, v) in self.m.items() if p != FALSE])

    def keys(self):
        return GList._guarded([(p, k) for k, (p, v) in self.m.items() if p != FALSE])

    def values(self):
        return GList._guarded([(p, v) for k, (p, v) in self.m.items() if p != FALSE])

    def iterate(self):
        return [(p, k) for k, (p, v) in self.m.items() if p != FALSE]

    def size(self):
        return _count([p for p, _ in self.m.values() if p != FALSE])

    def __repr__(self):
        return 'GDict{%s}' % ', '.join('%r:(%d)%r' % (k, p, v) for k, (p, v) in self.m.items())


class GList:
    """mutable cell: alternatives by length [(lit, tuple_of_values)]; or a 'guarded sequence' (iteration only)"""

    def __init__(self, elems=()):
        self.alts = [(TRUE, tuple(elems))]
        self.gseq = None

    @classmethod
    def _guarded(cls, seq, sep=False):
        r = cls.__new__(cls)
        r.alts = None
        r.gseq = list(seq)
        r.sep = sep       # lists enumerating a symbolic set (sorted(S), list(S)): keep alternatives apart
        return r

    @classmethod
    def _from(cls, alts, sep=False):
        r = cls.__new__(cls)
        r.gseq = None
        r.sep = sep
        r.alts = r._norm(alts, sep)
        return r

    KEEP_SEPARATE = 48

    sep = False     # True: alternatives of equal length are kept apart (lists derived from guarded sequences)

    @staticmethod
    def _norm(alts, sep=False):
        """alternatives with mutually exclusive guards. Identical tuples are merged; as long as there are
        few alternatives they are kept apart even when they have the same length (this keeps the
        elements of one alternative correlated, e.g. for sorted(S)[:4] + sorted(S)[-3:]); beyond
        KEEP_SEPARATE they are merged position-wise per length"""
        d = E.dag
        out = []
        for g, t in alts:
            if g == FALSE:
                continue
            for i, (h, u) in enumerate(out):
                if len(u) == len(t) and all(_same(a, b) for a, b in zip(t, u)):
                    out[i] = (d.or_(h, g), u)
                    break
            else:
                out.append((g, t))
        if sep and len(out) > GList.KEEP_SEPARATE:
            out = E.prune_global(out, GList.KEEP_SEPARATE)
        if sep and len(out) <= GList.KEEP_SEPARATE:
            out.sort(key=lambda gt: len(gt[1]))
            return out
        by = {}
        for g, t in out:
            n = len(t)
            if n in by:
                h, t0 = by[n]
                by[n] = (d.or_(h, g), tuple(E.merge(g, a, b) for a, b in zip(t, t0)))
            else:
                by[n] = (g, t)
        return [by[n] for n in sorted(by)]

    def _need_alts(self):
        if self.alts is None:
            # convert guarded sequence to by-length alternatives
            alts = [(TRUE, ())]
            d = E.dag
            for p, v in self.gseq:
                nxt = []
                for g, t in alts:
                    nxt.append((d.and_(g, p), t + (v,)))
                    nxt.append((d.and_(g, p ^ 1), t))
                alts = self._norm(E.prune_global(nxt, 128) if self.sep else nxt, self.sep)
            self.alts = alts
            self.gseq = None
        return self.alts

    def nonempty(self):
        if self.alts is None:
            return E.dag.any_(p for p, _ in self.gseq)
        return E.dag.any_(g for g, t in self.alts if len(t) > 0)

    def iterate(self):
        if self.alts is None:
            return [(p, v) for p, v in self.gseq if p != FALSE]
        alts = self.alts
        if len(alts) == 1:
            return [(TRUE, v) for v in alts[0][1]]
        d = E.dag
        out = []
        mx = max(len(t) for _, t in alts)
        for j in range(mx):
            pres = FALSE
            val = UNDEF
            for g, t in alts:
                if len(t) > j:
                    val = E.merge(g, t[j], val)
                    pres = d.or_(pres, g)
            out.append((pres, val))
        return out

    def size(self):
        alts = self._need_alts()
        return E.mk([(g, len(t)) for g, t in alts])

    def _set(self, newalts):
        """install new alternatives under the current guard"""
        g = E.g()
        d = E.dag
        if g == TRUE:
            self.alts = self._norm(newalts, self.sep)
            self.gseq = None
        else:
            if self.alts is None:
                self._need_alts()
            self.alts = self._norm([(d.and_(g, h), t) for h, t in newalts] + [(d.and_(g ^ 1, h), t) for h, t in self.alts], self.sep)

    def append(self, x):
        g = E.g()
        if self.alts is not None and len(self.alts) == 1 and g != TRUE:
            self.gseq = [(TRUE, v) for v in self.alts[0][1]]
            self.alts = None
        if self.alts is None:
            self.gseq.append((g, x))
            return
        alts = self._need_alts()
        self._set([(g, t + (x,)) for g, t in alts])

    def extend(self, xs):
        if self.alts is not None and len(self.alts) == 1 and any(g != TRUE for g, _ in ITER(xs)):
            self.gseq = [(TRUE, v) for v in self.alts[0][1]]
            self.alts = None
        for g, x in ITER(xs):
            E.push(g)
            try:
                self.append(x)
            finally:
                E.pop()

    def insert(self, i, x):
        if self.alts is None and not is_sym(i) and i == 0:
            self.gseq.insert(0, (E.g(), x))     # a guarded sequence can be extended at either end
            return
        alts = self._need_alts()
        if is_sym(i):
            raise Unsupported('insert at symbolic index')
        self._set([(g, t[:i] + (x,) + t[i:]) for g, t in alts])

    def clear(self):
        if self.alts is None:
            g = E.g()
            self.gseq = [(E.dag.and_(p, g ^ 1), v) for p, v in self.gseq if E.dag.and_(p, g ^ 1) != FALSE]
            return
        self._need_alts()
        self._set([(TRUE, ())])

    def pop(self, i=-1):
        alts = self._need_alts()
        d = E.dag
        g0 = E.g()
        res = []
        new = []
        for g, t in alts:
            for h, iv in E.inst(i):
                gh = d.and_(g, h)
                if gh == FALSE or E.known_false(gh):
                    continue
                if len(t) == 0 or not (-len(t) <= iv < len(t)):
                    E.fail(d.and_(g0, gh), 'IndexError', 'pop index out of range')
                    new.append((gh, t))
                    continue
                res.append((gh, t[iv]))
                tl = list(t)
                del tl[iv]
                new.append((gh, tuple(tl)))
        self._set(new)
        return E.mk(res)

    def getitem(self, i):
        alts = self._need_alts()
        d = E.dag
        g0 = E.g()
        if isinstance(i, slice):
            if any(is_sym(x) for x in (i.start, i.stop, i.step)):
                out = []
                for ha, a in E.inst(i.start):
                    for hb, b in E.inst(i.stop):
                        for hc, c_ in E.inst(i.step):
                            hh = d.all_([ha, hb, hc])
                            if hh == FALSE or E.known_false(hh):
                                continue
                            for g, t in alts:
                                gh = d.and_(g, hh)
                                if gh != FALSE:
                                    out.append((gh, t[slice(a, b, c_)]))
                return GList._from(out, self.sep)
            return GList._from([(g, t[i]) for g, t in alts], self.sep)
        res = []
        for h, iv in E.inst(i):
            for g, t in alts:
                gh = d.and_(g, h)
                if gh == FALSE:
                    continue
                if -len(t) <= iv < len(t):
                    res.append((gh, t[iv]))
                else:
                    E.fail(d.and_(g0, gh), 'IndexError', 'list index out of range')
        return E.mk(res)

    def setitem(self, i, x):
        alts = self._need_alts()
        d = E.dag
        g0 = E.g()
        new = []
        for g, t in alts:
            tl = list(t)
            for h, iv in E.inst(i):
                if -len(t) <= iv < len(t):
                    tl[iv] = E.merge(h, x, tl[iv])
                else:
                    E.fail(d.all_([g0, g, h]), 'IndexError', 'list assignment index out of range')
            new.append((g, tuple(tl)))
        self._set(new)

    def contains(self, x):
        d = E.dag
        return d.any_(d.and_(g, EQ(v, x)) for g, v in self.iterate())

    def index(self, x):
        alts = self._need_alts()
        d = E.dag
        res = []
        for g, t in alts:
            nb = TRUE
            for j, v in enumerate(t):
                e = EQ(v, x)
                res.append((d.all_([g, nb, e]), j))
                nb = d.and_(nb, e ^ 1)
            E.fail(d.all_([E.g(), g, nb]), 'ValueError', 'not in list')
        return E.mk(res)

    def copy(self):
        if self.alts is None:
            return GList._guarded(list(self.gseq))
        return GList._from(list(self.alts), self.sep)

    def concat(self, other):
        a = self._need_alts()
        b = other._need_alts() if isinstance(other, GList) else [(TRUE, tuple(other))]
        d = E.dag
        return GList._from([(d.and_(g, h), s + t) for g, s in a for h, t in b], self.sep or getattr(other, 'sep', False))

    def inst_list(self):
        d = E.dag
        if self.alts is None:
            # guarded sequence: enumerate the presence patterns directly (keeps elements correlated)
            out = [(TRUE, ())]
            for p, v in self.gseq:
                nxt = []
                vi = E.inst(v)
                for g, t in out:
                    a = d.and_(g, p)
                    if a != FALSE and not E.known_false(a):
                        for h, w in vi:
                            ah = d.and_(a, h)
                            if ah != FALSE:
                                nxt.append((ah, t + (w,)))
                    b = d.and_(g, p ^ 1)
                    if b != FALSE and not E.known_false(b):
                        nxt.append((b, t))
                out = E.prune(nxt, 256)
                if len(out) > 4096:
                    raise Unsupported('guarded sequence instantiation explosion')
            return [(g, list(t)) for g, t in out]
        alts = self._need_alts()
        out = []
        for g, t in alts:
            for h, tv in E.inst(t):
                gh = d.and_(g, h)
                if gh != FALSE:
                    out.append((gh, list(tv)))
        return out

    def sort(self, key=None, reverse=False):
        new = []
        for g, l in self.inst_list():
            new.append((g, tuple(sorted(l, key=key, reverse=reverse))))
        self._set(new)

    def __repr__(self):
        return 'GList(%r)' % (self.alts if self.alts is not None else self.gseq,)


# ======================================================================
# hooks used by rewritten code
# ======================================================================

ORDER = {'mode': 'fixed', 'max': 3, 'n': 0, 'epoch': 0, 'filter': None}    # epoch: bump to model 'another process / hash seed'
# filter: optional predicate on the list of candidate elements; only iterations it accepts get a symbolic order


def _perm_iter(items, owner=None):
    """iterate a set in a symbolic order: union over all permutations of the candidate elements. The
    order is a property of the set object: as long as the object is not modified every iteration over
    it uses the same (symbolic) permutation, as in CPython; a copy or a modified set gets a fresh one."""
    d = E.dag
    k = len(items)
    if ORDER['mode'] != 'symbolic' or k < 2 or k > ORDER['max']:
        return items
    if ORDER['filter'] is not None and not ORDER['filter']([e for _, e in items]):
        return items
    if ORDER.get('concrete_perm') is not None:
        # cube splitting over the schedule: this run follows one concrete permutation (the harness runs one job per permutation)
        perms = list(_it.permutations(range(k)))
        p = perms[ORDER['concrete_perm'] % len(perms)]
        ORDER.setdefault('log', []).append([str(items[j][1]) for j in p])
        return [items[j] for j in p]
    cached = getattr(owner, '_ord', None) if owner is not None else None
    key = (ORDER['epoch'], getattr(owner, '_ver', 0), tuple(e for _, e in items)) if owner is not None else None
    if cached is not None and cached[0] == key:
        alts = cached[1]
    else:
        perms = list(_it.permutations(range(k)))
        ORDER['n'] += 1
        alts = []
        nb = TRUE
        for i, p in enumerate(perms):
            if i == len(perms) - 1:
                alts.append((nb, p))
            else:
                v = E.fresh('ord%d_%d' % (ORDER['n'], i))
                alts.append((d.and_(nb, v), p))
                nb = d.and_(nb, v ^ 1)
        if owner is not None:
            try:
                owner._ord = (key, alts)
            except AttributeError:
                pass
    out = []
    for j in range(k):
        pres = TRUE if all(pp == TRUE for pp, _ in items) else d.any_(d.and_(g, items[p[j]][0]) for g, p in alts)
        val = E.mk([(g, items[p[j]][1]) for g, p in alts])
        out.append((pres, val))
    return out


def ITER(x):
    """-> list of (guard, element)"""
    if isinstance(x, (GSet, FSet)):
        return _perm_iter(x.iterate(), x)
    if isinstance(x, (GSet, FSet, GDict, GList)):
        return x.iterate()
    if isinstance(x, U):
        # position-wise merge of alternative sequences / union of alternative sets
        d = E.dag
        sv = _setview(x)
        if sv is not x:
            return sv.iterate()
        if all(isinstance(v, (str, tuple, list, range)) for _, v in x.alts):
            return GList._from([(g, tuple(v)) for g, v in x.alts]).iterate()
        out = []
        for g, v in x.alts:
            if not E.feasible(g):
                continue
            with _Guarded(g):
                for h, e in ITER(v):
                    out.append((d.and_(g, h), e))
        return out
    if x is BOTTOM:
        return []
    return [(TRUE, v) for v in x]


def _objlike(x):
    if isinstance(x, U):
        return any(getattr(type(v), '__lifted_class__', False) for _, v in x.alts)
    return getattr(type(x), '__lifted_class__', False)


_EQ_CACHE = {}


def _concrete_eq(v, w):
    """== of two fully concrete values through the real (lifted) __eq__, cached by canonical value"""
    key = (canon(v), canon(w))
    r = _EQ_CACHE.get(key)
    if r is None:
        r = E.lit(v == w)
        if r not in (TRUE, FALSE):
            raise Unsupported('symbolic result of == on concrete values')
        if len(_EQ_CACHE) < 2000000:
            _EQ_CACHE[key] = r
    return r


def _stamp(x, depth=0):
    """cheap identity stamp of a value: changes whenever the value (or a container reachable from it) is
    modified; used to validate cached instantiations"""
    if isinstance(x, _PRIM):
        return x
    if isinstance(x, (U, SB, FSet)):
        return id(x)
    if isinstance(x, GList):
        return ('L', id(x), id(x.alts), len(x.alts) if x.alts is not None else -1, len(x.gseq) if x.gseq is not None else -1)
    if isinstance(x, GSet):
        return ('S', id(x), getattr(x, '_ver', 0), len(x.m))
    if isinstance(x, tuple):
        return tuple(_stamp(c_, depth + 1) for c_ in x)
    dct = getattr(x, '__dict__', None)
    if dct is not None and getattr(type(x), '__lifted_class__', False) and depth < 5:
        return (id(x),) + tuple(_stamp(v, depth + 1) for v in dct.values())
    return ('id', id(x))


_INST_CACHE = {}


def inst_cached(x):
    if not getattr(type(x), '__lifted_class__', False):
        return E.inst(x)
    st = _stamp(x)
    ent = _INST_CACHE.get(id(x))
    if ent is not None and ent[0] == st and ent[2] is x:
        # guards of a cached instantiation are path independent (they only describe the value)
        return ent[1]
    r = E._inst_nopath(x)
    if len(_INST_CACHE) > 200000:
        _INST_CACHE.clear()
    _INST_CACHE[id(x)] = (st, r, x)
    return r


def EQ(a, b):
    """equality literal"""
    d = E.dag
    a = _setview(a)
    b = _setview(b)
    if a is b:
        return TRUE
    if (_objlike(a) or _objlike(b)) and not isinstance(a, SB) and not isinstance(b, SB):
        # objects of library classes (possibly with symbolic fields, possibly unions): enumerate the concrete
        # instances of both sides once and run the real __eq__ on each distinct pair of concrete values
        ia, ib = inst_cached(a), inst_cached(b)
        if len(ia) * len(ib) <= 20000:
            terms = []
            for g, v in ia:
                for h, w in ib:
                    gh = d.and_(g, h)
                    if gh == FALSE or not E.feasible(gh):
                        continue
                    try:
                        eq = _concrete_eq(v, w)
                    except LiftError:
                        raise
                    except Exception as ex:
                        # == itself raises for this pair of alternatives: a failure exactly under their guards
                        if d.and_(gh, E.g()) == TRUE:
                            raise
                        E.fail(d.and_(gh, E.g()), type(ex).__name__, str(ex))
                        continue
                    if eq == TRUE:
                        terms.append(gh)
            return d.any_(terms)
    if isinstance(a, (U, SB)) or isinstance(b, (U, SB)):
        if isinstance(a, U) and not isinstance(b, (U, SB)) or isinstance(b, U) and not isinstance(a, (U, SB)):
            u, o = (a, b) if isinstance(a, U) else (b, a)
            parts = [(g, EQ(v, o)) for g, v in u.alts]
            c = d.any_(d.and_(g, e) for g, e in parts)
            if all(e in (TRUE, FALSE) for _, e in parts):
                E.note_bool(c, [g for g, e in parts if e == TRUE], [g for g, e in parts if e == FALSE])
            return c
        return d.any_(d.all_([g, h, EQ(v, w)]) for g, v in E.alts(a) for h, w in E.alts(b))
    if isinstance(a, (GSet, FSet)) or isinstance(b, (GSet, FSet)):
        if not isinstance(a, (GSet, FSet)):
            a, b = b, a
        if not isinstance(b, (GSet, FSet, set, frozenset)):
            return FALSE
        return a.eq_lit(b)
    if isinstance(a, GList) or isinstance(b, GList):
        if not isinstance(a, GList):
            a, b = b, a
        if not isinstance(b, (GList, list)):
            return FALSE
        aa = a._need_alts()
        bb = b._need_alts() if isinstance(b, GList) else [(TRUE, tuple(b))]
        return d.any_(d.all_([g, h] + [EQ(x, y) for x, y in zip(s, t)]) for g, s in aa for h, t in bb if len(s) == len(t))
    if isinstance(a, tuple) and isinstance(b, tuple):
        if len(a) != len(b):
            return FALSE
        return d.all_(EQ(x, y) for x, y in zip(a, b))
    if isinstance(a, GDict) or isinstance(b, GDict):
        if isinstance(a, dict) and not isinstance(a, GDict):
            a = wrap(a)
        if isinstance(b, dict) and not isinstance(b, GDict):
            b = wrap(b)
        if not (isinstance(a, GDict) and isinstance(b, GDict)):
            return FALSE
        lits = []
        for k in set(a.m) | set(b.m):
            pa, va = a.m.get(k, (FALSE, None))
            pb, vb = b.m.get(k, (FALSE, None))
            both = d.and_(pa, pb)
            lits.append(d.iff(pa, pb))
            if both != FALSE:
                lits.append(d.or_(both ^ 1, EQ(va, vb)))
        return d.all_(lits)
    r = CALL_EQ(a, b)
    return E.lit(r)


def CALL_EQ(a, b):
    r = a == b
    return r


def _ro_method(name):
    return name in ('isdisjoint', 'issubset', 'issuperset', 'union', 'intersection', 'difference', 'copy')


def TRUTH(x):
    return E.lit(x)


class _Branch:
    __slots__ = ('which', 'lit')

    def __init__(self, which, lit):
        self.which = which
        self.lit = lit

    def __enter__(self):
        E.push(self.lit)
        return self

    def __exit__(self, et, ev, tb):
        g = E.g()
        E.pop()
        if et is None:
            return False
        if issubclass(et, LiftError) or not issubclass(et, Exception):
            return False
        if self.lit == TRUE and E.local() == TRUE and E.g() == TRUE:
            return False
        # exception under a symbolic guard: record as guarded failure
        E.fail(g, et.__name__, str(ev))
        return True


def SPLIT(test):
    c = E.lit(test)
    g = E.g()
    d = E.dag
    out = []
    if d.and_(g, c) != FALSE and not E.known_false(c):
        out.append(_Branch(True, c))
    if d.and_(g, c ^ 1) != FALSE and not E.known_false(c ^ 1):
        out.append(_Branch(False, c ^ 1))
    return out


def ALIVE(fr):
    """guard for 'rest of block' after a statement that may return/break/continue"""
    d = E.dag
    a = fr.returned ^ 1
    for lp in fr.loops[-1:]:
        a = d.and_(a, d.or_(lp.broken, lp.cont) ^ 1)
    if d.and_(E.g(), a) == FALSE:
        return []
    return [_Branch(True, a)]


def ENTER():
    fr = Frame(len(E.gstack))
    E.frames.append(fr)
    return fr


def LEAVE(fr):
    assert E.frames[-1] is fr
    E.frames.pop()
    while len(E.gstack) > fr.base:
        E.pop()


def RET(fr, value):
    """record a return; True if caller may natively return now"""
    lg = E.dag.and_(E.local(), fr.returned ^ 1)
    fr.rets.append((lg, value))
    fr.returned = E.dag.or_(fr.returned, lg)
    return fr.returned == TRUE


def RESULT(fr):
    if not fr.rets:
        return None
    alts = list(fr.rets)
    rest = fr.returned ^ 1
    if rest != FALSE:
        alts.append((rest, None))
    return E.mk(alts)


def PHI(new, oldthunk):
    lg = E.local()
    if lg == TRUE:
        return new
    fr = E.frames[-1]
    lg = E.dag.and_(lg, fr.returned ^ 1)
    try:
        old = oldthunk()
    except (NameError, UnboundLocalError):
        return new
    return E.merge(lg, new, old)


def LOOP(fr):
    lp = Loop()
    fr.loops.append(lp)
    return lp


def ENDLOOP(fr, lp):
    assert fr.loops[-1] is lp
    fr.loops.pop()


class _Iter:
    __slots__ = ('lit', 'lp')

    def __init__(self, lit, lp):
        self.lit = lit
        self.lp = lp

    def __enter__(self):
        self.lp.cont = FALSE
        E.push(self.lit)

    def __exit__(self, et, ev, tb):
        g = E.g()
        E.pop()
        if et is None:
            return False
        if issubclass(et, LiftError) or not issubclass(et, Exception):
            return False
        if g == TRUE:
            return False
        E.fail(g, et.__name__, str(ev))
        return True


def FOR(fr, lp, iterable):
    """yield (ctx, value) for each guarded element"""
    d = E.dag
    count = 0
    for g, v in ITER(iterable):
        if E.known_false(g):
            continue
        gg = d.all_([g, lp.broken ^ 1, fr.returned ^ 1])
        if d.and_(E.g(), gg) == FALSE:
            continue
        count += 1
        if count > E.for_bound:
            # a very long loop whose guard is still satisfiable: stop unrolling and leave an unwinding obligation
            E.unwind.append((d.and_(E.g(), gg), 'for-loop with more than %d symbolic iterations' % E.for_bound))
            return
        yield _Iter(gg, lp), v


def WHILE(fr, lp, testthunk, where=''):
    d = E.dag
    n = 0
    while True:
        alive = d.and_(lp.broken ^ 1, fr.returned ^ 1)
        if d.and_(E.g(), alive) == FALSE:
            return
        E.push(alive)
        try:
            c = E.lit(testthunk())
        finally:
            E.pop()
        gg = d.and_(alive, c)
        full = d.and_(E.g(), gg)
        if full == FALSE:
            return
        if full != TRUE:
            # ask the solver whether another iteration is feasible at all
            if E.rand.witness(E.assumptions + [full]) is not None:
                E.precheck_hits += 1
            elif E.rand.exact:
                return
            else:
                E.solver_calls += 1
                r, _ = E.solver.check(E.assumptions + [full], want_model=False)
                if r == 'unsat':
                    return
        n += 1
        if n > E.while_bound:
            E.unwind.append((full, where))
            return
        yield _Iter(gg, lp)


def BREAK(fr):
    lp = fr.loops[-1]
    lp.broken = E.dag.or_(lp.broken, E.local())


def CONTINUE(fr):
    lp = fr.loops[-1]
    lp.cont = E.dag.or_(lp.cont, E.local())


def ASSERT(test, msgthunk=None):
    c = E.lit(test)
    g = E.g()
    bad = E.dag.and_(g, c ^ 1)
    if bad == TRUE:
        raise AssertionError(msgthunk() if msgthunk else '')
    E.fail(bad, 'AssertionError', '')


def RAISE(exc):
    g = E.g()
    if g == TRUE:
        raise exc
    if isinstance(exc, type):
        E.fail(g, exc.__name__, '')
    else:
        E.fail(g, type(exc).__name__, str(exc))


class _Guarded:
    """push a guard around the evaluation of a sub-expression; an exception raised under it is recorded at
    exactly that guard (and dropped if the guarded path is infeasible)"""
    __slots__ = ('lit', 'failed')

    def __init__(self, lit):
        self.lit = lit
        self.failed = False

    def __enter__(self):
        E.push(self.lit)
        return self

    def __exit__(self, et, ev, tb):
        g = E.g()
        E.pop()
        if et is None:
            return False
        if issubclass(et, LiftError) or not issubclass(et, Exception):
            return False
        if g == TRUE:
            return False
        E.fail(g, et.__name__, str(ev))
        self.failed = True
        return True


def AND(*thunks):
    """x and y and ...: the first operand that is falsy, else the last one (values, not booleans)"""
    v = thunks[0]()
    if len(thunks) == 1:
        return v
    l = E.lit(v)
    if l == FALSE:
        return v
    if l == TRUE:
        return AND(*thunks[1:])
    if E.dag.and_(E.g(), l) == FALSE:
        return v            # the first operand is never truthy on this path
    rest = BOTTOM
    with _Guarded(l):
        rest = AND(*thunks[1:])
    if isinstance(v, (SB, bool)) and isinstance(rest, (SB, bool)):
        return E.sb(E.dag.and_(l, E.lit(rest)))
    return E.merge(l, rest, v)


def OR(*thunks):
    """x or y or ...: the first operand that is truthy, else the last one (values, not booleans)"""
    v = thunks[0]()
    if len(thunks) == 1:
        return v
    l = E.lit(v)
    if l == TRUE:
        return v
    if l == FALSE:
        return OR(*thunks[1:])
    if E.dag.and_(E.g(), l ^ 1) == FALSE:
        return v            # the first operand is always truthy on this path
    rest = BOTTOM
    with _Guarded(l ^ 1):
        rest = OR(*thunks[1:])
    if isinstance(v, (SB, bool)) and isinstance(rest, (SB, bool)):
        return E.sb(E.dag.or_(l, E.lit(rest)))
    return E.merge(l, v, rest)


def NOT(x):
    if not is_sym(x):
        return not x
    return E.sb(E.lit(x) ^ 1)


def IFEXP(test, a, b):
    c = E.lit(test)
    if c == TRUE:
        return a()
    if c == FALSE:
        return b()
    va = vb = BOTTOM
    if E.dag.and_(E.g(), c) != FALSE:
        with _Guarded(c):
            va = a()
    if E.dag.and_(E.g(), c ^ 1) != FALSE:
        with _Guarded(c ^ 1):
            vb = b()
    return E.merge(c, va, vb)


def _contains(container, x):
    container = _setview(container)
    if isinstance(container, (GSet, FSet, GDict, GList)):
        return container.contains(x)
    if isinstance(container, U):
        d = E.dag
        out = []
        for g, v in container.alts:
            # an alternative that is no container (e.g. None from a path that does not return) fails under its own guard only
            if g == FALSE or E.known_false(d.and_(E.g(), g)):
                continue
            r = FALSE
            with _Guarded(g):
                r = _contains(v, x)
            out.append(d.and_(g, r))
        return d.any_(out)
    if is_sym(x) or (isinstance(x, tuple) and any(is_sym(c) for c in x)):
        d = E.dag
        if isinstance(container, str):
            return d.any_(d.and_(h, TRUE if v in container else FALSE) for h, v in E.inst(x))
        return d.any_(EQ(v, x) for v in container)
    return TRUE if x in container else FALSE


def CMP(op, a, b):
    d = E.dag
    if op == 'In':
        return E.sb(_contains(b, a))
    if op == 'NotIn':
        return E.sb(_contains(b, a) ^ 1)
    if op == 'Eq':
        if not is_sym(a) and not is_sym(b) and not isinstance(a, tuple):
            return wrapb(a == b)
        return E.sb(EQ(a, b))
    if op == 'NotEq':
        if not is_sym(a) and not is_sym(b) and not isinstance(a, tuple):
            return wrapb(a != b)
        return E.sb(EQ(a, b) ^ 1)
    if op == 'Is':
        return a is b
    if op == 'IsNot':
        return a is not b
    if isinstance(a, (GSet, FSet)) or isinstance(b, (GSet, FSet)):
        if not isinstance(a, (GSet, FSet)):
            a = GSet(a)
        if not isinstance(b, (GSet, FSet)):
            b = GSet(b)
        if op == 'LtE':
            return E.sb(a.subset_lit(b))
        if op == 'GtE':
            return E.sb(b.subset_lit(a))
        if op == 'Lt':
            return E.sb(d.and_(a.subset_lit(b), a.eq_lit(b) ^ 1))
        if op == 'Gt':
            return E.sb(d.and_(b.subset_lit(a), a.eq_lit(b) ^ 1))
    import operator
    f = {'Lt': operator.lt, 'LtE': operator.le, 'Gt': operator.gt, 'GtE': operator.ge}[op]
    if is_sym(a) or is_sym(b):
        return E.lift(f, [a, b])
    return f(a, b)


def wrapb(r):
    return r


_PROMOTED = {}


def _promote_global(obj):
    """a native dict / set bound to a module-level name of the lifted package (a cache such as `_memo = {}`) that is written
    under a symbolic guard or with a symbolic key: rebind every module global that refers to it to an engine container with
    the same content. Lifted code reads module globals by name on every access, so later reads see the engine container."""
    if id(obj) in _PROMOTED:
        return _PROMOTED[id(obj)][1]
    import weakref as _wr
    import collections as _co
    if type(obj) not in (dict, set, _wr.WeakKeyDictionary, _wr.WeakValueDictionary, _co.OrderedDict, _co.defaultdict):
        return None
    hits = []
    for name, mod in list(sys.modules.items()):
        if not (name == 'gambatools' or name.startswith('gambatools.')) or mod is None:
            continue
        for k, v in list(vars(mod).items()):
            if v is obj:
                hits.append((mod, k))
    if not hits:
        return None
    if isinstance(obj, set):
        new = wrap(obj)
    else:
        new = wrap(dict(obj.items()))
        if isinstance(obj, _co.defaultdict):
            new.default_factory = obj.default_factory
    for mod, k in hits:
        setattr(mod, k, new)
    _PROMOTED[id(obj)] = (obj, new)
    return new


def GETITEM(obj, key):
    if isinstance(obj, (GDict, GList)):
        return obj.getitem(key)
    if isinstance(obj, U):
        return PER_ALT(obj, lambda v: GETITEM(v, key))
    if is_sym(key) or (isinstance(key, tuple) and any(is_sym(c) for c in key)):
        if isinstance(obj, (str, tuple, list, dict)):
            return E.lift(lambda k: obj[k], [key])
        raise Unsupported('getitem %r[%r]' % (type(obj), key))
    if isinstance(key, slice) and any(is_sym(x) for x in (key.start, key.stop, key.step)):
        return E.lift(lambda a, b, c: obj[a:b:c], [key.start, key.stop, key.step])
    return wrap(obj[key]) if isinstance(obj, (dict,)) else obj[key]


def SETITEM(obj, key, value):
    if isinstance(obj, (GDict, GList)):
        return obj.setitem(key, value)
    if isinstance(obj, U):
        for g, v in obj.alts:
            if E.feasible(g):
                with _Guarded(g):
                    SETITEM(v, key, value)
        return
    if E.g() != TRUE or deep_sym(key):
        promoted = _promote_global(obj)
        if promoted is not None:
            return promoted.setitem(key, value)
        raise Unsupported('setitem on native %r under guard / with a symbolic key' % (type(obj),))
    obj[key] = value        # a native container may hold engine values as long as the store is unconditional


def DELITEM(obj, key):
    if isinstance(obj, GDict):
        return obj.delitem(key)
    if isinstance(obj, GList):
        return obj.pop(key)
    raise Unsupported('delitem')


def SETATTR(obj, name, value):
    if isinstance(obj, U):
        for g, v in obj.alts:
            if E.feasible(g):
                with _Guarded(g):
                    SETATTR(v, name, value)
        return
    g = E.g()
    if g == TRUE:
        setattr(obj, name, value)
    else:
        old = getattr(obj, name, UNDEF)
        setattr(obj, name, E.merge(g, value, old))


import operator as _op

_BIN = {'Add': _op.add, 'Sub': _op.sub, 'Mult': _op.mul, 'FloorDiv': _op.floordiv, 'Mod': _op.mod,
        'BitOr': _op.or_, 'BitAnd': _op.and_, 'BitXor': _op.xor, 'Div': _op.truediv, 'Pow': _op.pow,
        'LShift': _op.lshift, 'RShift': _op.rshift}


def _setview(x):
    if isinstance(x, U) and all(isinstance(v, (GSet, FSet, set, frozenset)) for _, v in x.alts):
        cls = FSet if all(isinstance(v, (FSet, frozenset)) for _, v in x.alts) else GSet
        return cls._from(_SetBase._pres(None, x))
    return x


def BINOP(op, a, b):
    a = _setview(a)
    b = _setview(b)
    if isinstance(a, (GSet, FSet)) or isinstance(b, (GSet, FSet)):
        if isinstance(a, U) or isinstance(b, U):
            pass
        else:
            return _BIN[op](a, b)
    if isinstance(a, GList) or isinstance(b, GList):
        if op == 'Add' and not isinstance(a, U) and not isinstance(b, U):
            if not isinstance(a, GList):
                a = GList(a)
            return a.concat(b)
        if op == 'Mult':
            raise Unsupported('list * n')
    if isinstance(a, U) and any(isinstance(v, (GSet, FSet, GList)) for _, v in a.alts) or \
       isinstance(b, U) and any(isinstance(v, (GSet, FSet, GList)) for _, v in b.alts):
        res = []
        d = E.dag
        for g, v in E.alts(a):
            for h, w in E.alts(b):
                gh = d.and_(g, h)
                if gh != FALSE and E.feasible(gh):
                    with _Guarded(gh):
                        res.append((gh, BINOP(op, v, w)))
        return E.mk(res)
    if is_sym(a) or is_sym(b):
        return E.lift(_BIN[op], [a, b])
    if isinstance(a, tuple) or isinstance(b, tuple):
        return _BIN[op](a, b)
    return wrap(_BIN[op](a, b))


def IOP(op, a, b):
    if isinstance(a, (GSet,)) and op in ('BitOr', 'Sub', 'BitAnd'):
        if op == 'BitOr':
            return a.__ior__(b)
        if op == 'Sub':
            return a.__isub__(b)
        return a.__iand__(b)
    if isinstance(a, GList) and op == 'Add':
        a.extend(b)
        return a
    if isinstance(a, U) and any(isinstance(v, (GSet, GList)) for _, v in a.alts):
        for g, v in a.alts:
            if E.feasible(g):
                with _Guarded(g):
                    IOP(op, v, b)
        return a
    return BINOP(op, a, b)


# ---- call dispatch ---------------------------------------------------

OVERRIDES = {}


def override(native):
    def deco(f):
        OVERRIDES[native] = f
        return f
    return deco


def _has_sym(args, kwargs):
    for a in args:
        if deep_sym(a):
            return True
    for a in kwargs.values():
        if is_sym(a):
            return True
    return False


def CALL(f, *args, **kwargs):
    if isinstance(f, U):
        return PER_ALT(f, lambda v: CALL(v, *args, **kwargs))
    try:
        ov = OVERRIDES.get(f)
    except TypeError:
        ov = None
    if ov is not None:
        return ov(*args, **kwargs)
    if getattr(f, '__lifted__', False) or getattr(getattr(f, '__func__', None), '__lifted__', False):
        return f(*args, **kwargs)
    if isinstance(f, type):
        if getattr(f, '__lifted_class__', False):
            return f(*args, **kwargs)
        if _has_sym(args, kwargs):
            return E.lift(f, args, kwargs)
        return wrap(f(*args, **kwargs)) if f in (list, set, dict) else f(*args, **kwargs)
    slf = getattr(f, '__self__', None)
    if isinstance(slf, (GSet, FSet, GDict, GList, Engine, GStringIO, GStr)):
        return f(*args, **kwargs)
    if _has_sym(args, kwargs) or is_sym(slf):
        if slf is not None and is_sym(slf):
            raise Unsupported('native method on symbolic self %r' % (f,))
        return E.lift(f, args, kwargs)
    r = f(*args, **kwargs)
    return wrap(r)


LOGGING = {'mode': 'skip'}      # 'skip': log(...) arguments are not evaluated; 'eval': evaluated as written


def LOGCALL(thunk):
    if LOGGING['mode'] == 'skip':
        return None
    return thunk()


def CALLM(obj, name, *args, **kwargs):
    if isinstance(obj, U) and _ro_method(name):
        sv = _setview(obj)
        if sv is not obj:
            r = getattr(sv, name)(*args, **kwargs)
            return GSet._from(dict(r.m)) if isinstance(r, FSet) and name in ('union', 'copy', 'intersection', 'difference') else r
    if isinstance(obj, U):
        return PER_ALT(obj, lambda v: CALLM(v, name, *args, **kwargs))
    if obj is BOTTOM:
        return BOTTOM
    return CALL(getattr(obj, name), *args, **kwargs)


# ---- builtin overrides -----------------------------------------------
import builtins as _b
import copy as _copy


@override(_b.len)
def _len(x):
    if isinstance(x, (GSet, FSet, GDict, GList)):
        return x.size()
    if isinstance(x, U):
        return E.mk([(g, _len(v)) for g, v in x.alts])
    return len(x)


@override(_b.set)
def _set(it=()):
    return GSet(it)


@override(_b.frozenset)
def _frozenset(it=()):
    return FSet(it)


@override(_b.list)
def _list(it=()):
    if isinstance(it, GList):
        return it.copy()
    items = ITER(it)
    if all(g == TRUE for g, _ in items):
        return GList([v for _, v in items])
    return GList._guarded(items, sep=isinstance(it, (GSet, FSet)))


@override(_b.tuple)
def _tuple(it=()):
    items = ITER(it)
    if all(g == TRUE for g, _ in items):
        return tuple(v for _, v in items)
    return E.lift(tuple, [GList._guarded(items)])


@override(_b.dict)
def _dict(it=(), **kw):
    r = GDict()
    if isinstance(it, GDict):
        return it.copy()
    if isinstance(it, dict):
        it = it.items()
    for g, (k, v) in ITER(it):
        E.push(g)
        try:
            r.setitem(k, v)
        finally:
            E.pop()
    for k, v in kw.items():
        r.setitem(k, v)
    return r


@override(_co.defaultdict)
def _defaultdict(factory=None, *a, **kw):
    r = _dict(*a, **kw)
    r.default_factory = factory
    return r


@override(_b.any)
def _any(it):
    d = E.dag
    return E.sb(d.any_(d.and_(g, E.lit(v)) for g, v in ITER(it)))


@override(_b.all)
def _all(it):
    d = E.dag
    return E.sb(d.all_(d.or_(g ^ 1, E.lit(v)) for g, v in ITER(it)))


_SENT = object()


@override(_b.next)
def _next(it, default=_SENT):
    if isinstance(it, _SetIter):
        return it.s.choose(False)
    d = E.dag
    items = ITER(it)
    res = []
    nb = TRUE
    for g, v in items:
        res.append((d.and_(nb, g), v))
        nb = d.and_(nb, g ^ 1)
        if nb == FALSE:
            break
    if default is not _SENT:
        res.append((nb, default))
    else:
        E.fail(d.and_(E.g(), nb), 'StopIteration', '')
    return E.mk(res)


class _SetIter:
    def __init__(self, s):
        self.s = s


@override(_b.iter)
def _iter(x):
    if isinstance(x, GSet):
        return _SetIter(x)
    if isinstance(x, U) and all(isinstance(v, (GSet, FSet)) for _, v in x.alts):
        return _SetIter(_setview(x) if not isinstance(_setview(x), FSet) else GSet._from(dict(_setview(x).m)))
    if isinstance(x, FSet):
        return _SetIter(GSet._from(dict(x.m)))
    if isinstance(x, (FSet, GDict, GList)):
        return GList._guarded(ITER(x))
    return iter(x)


@override(_b.sorted)
def _sorted(it, key=None, reverse=False):
    items = ITER(it)
    if all(not is_sym(v) for _, v in items) and key is None:
        # concrete elements, symbolic presence: sorted order is fixed
        srt = sorted(items, key=lambda gv: gv[1], reverse=reverse)
        if all(g == TRUE for g, _ in srt):
            return GList([v for _, v in srt])
        return GList._guarded(srt, sep=True)
    l = _list(it)
    l.sort(key=key, reverse=reverse)
    return l


@override(_b.isinstance)
def _isinstance(x, t):
    if isinstance(x, U):
        return E.mk([(g, _isinstance(v, t)) for g, v in x.alts])
    if isinstance(x, GSet):
        return t is set or (isinstance(t, tuple) and set in t)
    if isinstance(x, GList):
        return t is list or (isinstance(t, tuple) and list in t)
    if isinstance(x, GDict):
        return t is dict or (isinstance(t, tuple) and dict in t)
    if isinstance(x, FSet):
        return t is frozenset
    if isinstance(x, SB):
        return t is bool
    return isinstance(x, t)


@override(_b.min)
def _min(*a, **kw):
    if len(a) == 1:
        a = [_list(a[0])]
        return E.lift(lambda l: min(l, **kw), a)
    return E.lift(lambda *xs: min(*xs, **kw), a)


@override(_b.max)
def _max(*a, **kw):
    if len(a) == 1:
        a = [_list(a[0])]
        return E.lift(lambda l: max(l, **kw), a)
    return E.lift(lambda *xs: max(*xs, **kw), a)


@override(_b.range)
def _range(*a):
    if any(is_sym(x) for x in a):
        return E.lift(lambda *xs: tuple(range(*xs)), a)
    return range(*a)


@override(_b.enumerate)
def _enumerate(it, start=0):
    items = ITER(it)
    if all(g == TRUE for g, _ in items):
        return [(i + start, v) for i, (_, v) in enumerate(items)]
    if isinstance(it, GList):
        # positions depend on which elements are present: enumerate every alternative (by length) of the list
        return GList._from([(g, tuple((i + start, v) for i, v in enumerate(t))) for g, t in it.inst_list()])
    if isinstance(it, U) and all(isinstance(v, (list, tuple, str, GList)) for _, v in it.alts):
        d = E.dag
        alts = []
        for g, v in it.alts:
            for h, t in (v.inst_list() if isinstance(v, GList) else [(TRUE, tuple(v))]):
                gh = d.and_(g, h)
                if gh != FALSE:
                    alts.append((gh, tuple((i + start, x) for i, x in enumerate(t))))
        return GList._from(alts)
    raise Unsupported('enumerate over guarded sequence %r' % (type(it).__name__ + ':' + repr(it)[:300],))


@override(_b.reversed)
def _reversed(it):
    if isinstance(it, GList):
        return GList._from([(g, tuple(reversed(t))) for g, t in it._need_alts()])
    if isinstance(it, U):
        return E.lift(lambda s: s[::-1], [it])
    return reversed(it)


@override(_b.map)
def _map(f, *its):
    if len(its) != 1:
        raise Unsupported('map with several iterables')
    return GList._guarded([(g, _guarded_call(g, f, v)) for g, v in ITER(its[0])])


def _guarded_call(g, f, *a):
    E.push(g)
    try:
        return CALL(f, *a)
    finally:
        E.pop()


@override(_b.filter)
def _filter(f, it):
    d = E.dag
    out = []
    for g, v in ITER(it):
        c = E.lit(_guarded_call(g, f, v) if f is not None else v)
        out.append((d.and_(g, c), v))
    return GList._guarded(out)


OUTPUT = []      # (guard, text)


@override(_b.print)
def _print(*a, **k):
    if k.get('file') is not None:
        return
    text = E.lift(lambda *xs: ' '.join(str(x) for x in xs), list(a)) if a else ''
    OUTPUT.append((E.g(), text))


def printed(pred):
    """guard under which some printed line satisfies pred(text)"""
    d = E.dag
    return d.any_(d.and_(g, d.any_(h for h, t in E.alts(text) if pred(t))) for g, text in OUTPUT)


@override(_b.id)
def _id(x):
    return id(x)        # identity of the (symbolic) object itself; never instantiates


@override(_b.str)
def _str(x=''):
    if is_sym(x) or (getattr(type(x), '__lifted_class__', False) and deep_sym(x)):
        # a library object with symbolic fields is instantiated deeply first (a __str__ returning a union is a TypeError)
        return E.lift(str, [x])
    return str(x)


@override(_b.sum)
def _sum(it, start=0):
    acc = start
    for g, v in ITER(it):
        acc = E.merge(g, BINOP('Add', acc, v), acc)
    return acc


@override(_copy.copy)
def _shallow_copy(x):
    # shallow copy: a new container holding the SAME element objects (aliasing of the elements is the point)
    if isinstance(x, (GSet, GDict, GList)):
        return x.copy()
    if isinstance(x, FSet):
        return x
    if isinstance(x, U):
        return PER_ALT(x, _shallow_copy)
    return _copy.copy(x)


@override(_copy.deepcopy)
def _deepcopy(x, memo=None):
    return DEEPCOPY(x, {})


def DEEPCOPY(x, memo):
    if id(x) in memo:
        return memo[id(x)]
    if isinstance(x, (str, int, float, bool, type(None), FSet, SB, frozenset)):
        return x
    if isinstance(x, tuple):
        return tuple(DEEPCOPY(c, memo) for c in x)
    if isinstance(x, U):
        return E.mk([(g, DEEPCOPY(v, memo)) for g, v in x.alts])
    if isinstance(x, GSet):
        r = x.copy()
        memo[id(x)] = r
        return r
    if isinstance(x, GList):
        x._need_alts()
        r = GList._from([(g, tuple(DEEPCOPY(c, memo) for c in t)) for g, t in x.alts])
        memo[id(x)] = r
        return r
    if isinstance(x, GDict):
        r = GDict(x.default_factory)
        memo[id(x)] = r
        r.m = {k: [p, DEEPCOPY(v, memo)] for k, (p, v) in x.m.items()}
        return r
    if hasattr(x, '__dict__'):
        r = x.__class__.__new__(x.__class__)
        memo[id(x)] = r
        for k, v in x.__dict__.items():
            r.__dict__[k] = DEEPCOPY(v, memo)
        return r
    return _copy.deepcopy(x)


class _Itertools:
    @staticmethod
    def product(*its, repeat=1):
        lists = [ITER(i) for i in its] * repeat
        d = E.dag
        out = []
        for combo in _it.product(*lists):
            g = d.all_(g for g, _ in combo)
            if g != FALSE:
                out.append((g, tuple(v for _, v in combo)))
        if all(g == TRUE for g, _ in out):
            return [v for _, v in out]
        return GList._guarded(out)

    @staticmethod
    def combinations(it, r):
        items = ITER(it)
        if not all(g == TRUE for g, _ in items):
            # guarded elements: a combination is present iff all of its members are (order of the survivors is kept)
            d = E.dag
            out = []
            for combo in _it.combinations(items, r):
                g = d.all_(g for g, _ in combo)
                if g != FALSE:
                    out.append((g, tuple(v for _, v in combo)))
            return GList._guarded(out)
        return list(_it.combinations([v for _, v in items], r))

    @staticmethod
    def combinations_with_replacement(it, r):
        items = ITER(it)
        if not all(g == TRUE for g, _ in items):
            d = E.dag
            out = []
            for combo in _it.combinations_with_replacement(items, r):
                g = d.all_(g for g, _ in combo)
                if g != FALSE:
                    out.append((g, tuple(v for _, v in combo)))
            return GList._guarded(out)
        return list(_it.combinations_with_replacement([v for _, v in items], r))

    @staticmethod
    def groupby(it, key=None):
        # consecutive groups of a (possibly symbolic) sequence: computed per concrete instance of the sequence
        def groups(l):
            return [(k, list(g)) for k, g in _it.groupby(l, key)]
        return E.lift(groups, [_list(it)])

    @staticmethod
    def chain(*its):
        out = []
        for i in its:
            out.extend(ITER(i))
        return GList._guarded(out)

    class _Chain:
        pass


def _chain_from_iterable(its):
    d = E.dag
    out = []
    for g, i in ITER(its):
        for h, v in ITER(i):
            out.append((d.and_(g, h), v))
    return GList._guarded(out)


_Itertools.chain.from_iterable = _chain_from_iterable
for _n in ('product', 'combinations', 'combinations_with_replacement', 'chain', 'groupby'):
    getattr(_Itertools, _n).__lifted__ = True
_chain_from_iterable.__lifted__ = True
ITERTOOLS = _Itertools


# ---- comprehension / misc hooks ---------------------------------------
_COMPS = []


def COMP(kind, thunk):
    _COMPS.append((kind, len(E.gstack), []))
    try:
        thunk()
    finally:
        kind, base, items = _COMPS.pop()
    if kind == 'list':
        if all(g == TRUE for g, _ in items):
            return GList([v for _, v in items])
        return GList._guarded(items)
    if kind == 'set':
        return GSet(GList._guarded(items))
    r = GDict()
    for g, (k, v) in items:
        E.push(g)
        try:
            r.setitem(k, v)
        finally:
            E.pop()
    return r


def _bind(shape, v):
    if shape == 0:
        return [v]
    parts = UNPACK(v, len(shape))
    out = []
    for sh, p in zip(shape, parts):
        out += _bind(sh, p)
    return out


def COMP_FOR(iterable, shape, lam):
    d = E.dag
    for g, v in ITER(iterable):
        if not E.feasible(g):
            continue
        with _Guarded(g):
            lam(*_bind(shape, v))


def COMP_IF(cond, thunk):
    c = E.lit(cond)
    if not E.feasible(c):
        return
    with _Guarded(c):
        thunk()


def COMP_EMIT(v):
    kind, base, items = _COMPS[-1]
    items.append((E.dag.all_(E.gstack[base:]), v))


def UNPACK(v, n):
    if isinstance(v, tuple):
        if len(v) != n:
            raise ValueError('unpack: expected %d values, got %d' % (n, len(v)))
        return v
    if isinstance(v, GList):
        alts = v._need_alts()
        d = E.dag
        ok = [(g, t) for g, t in alts if len(t) == n]
        for g, t in alts:
            if len(t) != n:
                E.fail(d.and_(E.g(), g), 'ValueError', 'unpack: expected %d values, got %d' % (n, len(t)))
        if not ok:
            return [BOTTOM] * n
        return [E.mk([(g, t[i]) for g, t in ok]) for i in range(n)]
    if isinstance(v, U):
        parts = []
        for g, w in v.alts:
            if E.feasible(g):
                with _Guarded(g):
                    parts.append((g, UNPACK(w, n)))
        if not parts:
            return [BOTTOM] * n
        return [E.mk([(g, p[i]) for g, p in parts]) for i in range(n)]
    if v is BOTTOM:
        return [BOTTOM] * n
    t = tuple(v)
    if len(t) != n:
        raise ValueError('unpack: expected %d values, got %d' % (n, len(t)))
    return t


def MKSET(elts):
    return GSet(elts)


def MKDICT(pairs):
    r = GDict()
    for k, v in pairs:
        r.setitem(k, v)
    return r


def FSTRING(*parts):
    return E.lift(lambda *ps: ''.join(format(p, '') for p in ps), parts)


def UNOP(op, x):
    f = {'USub': _op.neg, 'UAdd': _op.pos, 'Invert': _op.invert}[op]
    if is_sym(x):
        return E.lift(f, [x])
    return f(x)


def CALL_STAR(f, mname, items, **kwargs):
    """call with *args; guarded star elements supported for set.union-like folds"""
    d = E.dag
    flat = []      # (guard, value)
    for star, v in items:
        if star:
            flat.extend(ITER(v))
        else:
            flat.append((TRUE, v))
    if all(g == TRUE for g, _ in flat):
        args = [v for _, v in flat]
        return CALLM(f, mname, *args, **kwargs) if mname else CALL(f, *args, **kwargs)
    if mname in ('union',) and isinstance(_setview(f), (GSet, FSet)):
        r = _setview(f).copy() if isinstance(_setview(f), GSet) else GSet._from(dict(_setview(f).m))
        if r is f:
            r = f.copy()
        for g, v in flat:
            for e, p in r._pres(v).items():
                r.m[e] = d.or_(r.m.get(e, FALSE), d.and_(g, p))
        return r
    # generic: lift over the guarded list
    gl = GList._guarded(flat)
    res = []
    for g, t in gl._need_alts():
        E.push(g)
        try:
            res.append((g, CALLM(f, mname, *t, **kwargs) if mname else CALL(f, *t, **kwargs)))
        finally:
            E.pop()
    return E.mk(res)


# ---- text model: StringIO as a guarded sequence of flat-union pieces -------
import io as _io


class GStr:
    """rope: guarded sequence of pieces; piece = concrete str | U of str"""
    def __init__(self, pieces=()):
        self.pieces = list(pieces)     # (guard, piece)

    def nonempty(self):
        return E.dag.any_(E.dag.and_(g, E.lit(p)) for g, p in self.pieces)

    def _flat(self):
        """flat union of concrete strings (may explode)"""
        alts = [(TRUE, '')]
        d = E.dag
        stripped = any(p is _STRIP_MARK for _, p in self.pieces)
        for g, p in self.pieces:
            if p is _STRIP_MARK:
                continue
            nxt = []
            for h, s in alts:
                for k, ps in E.alts(p):
                    a = d.all_([h, g, k])
                    if a != FALSE:
                        nxt.append((a, s + ps))
                b = d.and_(h, g ^ 1)
                if b != FALSE:
                    nxt.append((b, s))
            alts = nxt
            if len(alts) > 4096:
                raise Unsupported('rope flatten explosion')
        if stripped:
            alts = [(g, t.strip()) for g, t in alts]
        return E.mk(alts)

    def strip(self):
        # only trailing/leading whitespace of the first/last always-present concrete pieces is handled structurally
        ps = list(self.pieces)
        if not ps:
            return self
        # generic: strip the last piece's alternatives on the right if it is the last *possible* piece ... keep simple:
        # pieces produced by line printers end with '\n'; removing a final newline does not change split('\n') modulo an empty last line
        return GStr(ps + [(TRUE, _STRIP_MARK)])

    def split(self, sep=None, maxsplit=-1):
        if sep != '\n':
            return CALLM(self._flat(), 'split', sep) if sep is not None else CALLM(self._flat(), 'split')
        stripped = False
        ps = self.pieces
        if ps and ps[-1][1] is _STRIP_MARK:
            stripped = True
            ps = ps[:-1]
        # require: every alternative of every piece is a sequence of complete lines (ends with \n) -- line printers
        lines = []
        for g, p in ps:
            alts = E.alts(p)
            counts = set(s.count('\n') for _, s in alts)
            if len(counts) != 1 or not all(s.endswith('\n') or s == '' for _, s in alts):
                return CALLM(self._flat(), 'split', sep)
            n = counts.pop()
            for i in range(n):
                lines.append((g, E.mk([(h, s.split('\n')[i]) for h, s in alts])))
        if not stripped:
            lines.append((TRUE, ''))
        return GList._guarded(lines)


class _StripMark:
    pass


_STRIP_MARK = _StripMark()


class GStringIO:
    def __init__(self, initial=''):
        self.rope = GStr([(TRUE, initial)] if initial else [])

    def write(self, s):
        self.rope.pieces.append((E.g(), s))

    def getvalue(self):
        return GStr(self.rope.pieces)

    def close(self):
        pass


OVERRIDES[_io.StringIO] = GStringIO

import re as _re


@override(_re.split)
def _re_split(pattern, string, maxsplit=0, flags=0):
    if isinstance(string, GStr) and pattern == '\n' and not maxsplit and not flags:
        return string.split('\n')         # line structure of the rope is kept
    if is_sym(string) or is_sym(pattern):
        return E.lift(_re.split, [pattern, string, maxsplit, flags])
    return _re.split(pattern, string, maxsplit, flags)


# ---- try / except ------------------------------------------------------
import builtins as _bi


class _Try:
    def __init__(self):
        self.idx = len(E.errors)
        self.dead0 = E.dead


def TRY_BEGIN():
    return _Try()


def TRY_NATIVE(t, exc):
    if isinstance(exc, LiftError):
        raise exc
    E.fail(E.g(), type(exc).__name__, str(exc))


def _exc_class(kind):
    c = getattr(_bi, kind, None)
    return c if isinstance(c, type) else RuntimeError


class _Handler:
    def __init__(self, index, lit, exc):
        self.index = index
        self.lit = lit
        self.exc = exc

    def __enter__(self):
        E.push(self.lit)
        return self

    def __exit__(self, et, ev, tb):
        g = E.g()
        E.pop()
        if et is None or issubclass(et, LiftError) or not issubclass(et, Exception):
            return False
        if g == TRUE:
            return False
        E.fail(g, et.__name__, str(ev))
        return True


def TRY_HANDLERS(t, types):
    d = E.dag
    region = E.errors[t.idx:]
    del E.errors[t.idx:]
    caught = [[] for _ in types]
    uncaught = []
    for lit, kind, msg in region:
        cls = _exc_class(kind)
        for i, T in enumerate(types):
            if T is None or issubclass(cls, T):
                caught[i].append((lit, cls(msg)))
                break
        else:
            uncaught.append((lit, kind, msg))
    E.errors.extend(uncaught)
    E.dead = d.or_(t.dead0, d.any_(l for l, _, _ in uncaught))
    out = []
    for i, c in enumerate(caught):
        if c:
            lit = d.any_(l for l, _ in c)
            out.append(_Handler(i, lit, E.mk(c)))
    return out
