"""Hash-consed AIG-style Boolean DAG with SMT-LIB export (prototype)."""

FALSE = 0
TRUE = 1
# literal = 2*node + neg ; node 0 is the constant (lit 0 = FALSE, lit 1 = TRUE)

class BDag:
    def __init__(self):
        self.nodes = [None]          # node id -> ('var', name) | ('and', a, b)
        self.tab = {}
        self.varnames = {}
        self.nvars = 0
        self.sim = None
        self.fold = True             # semantic folding of and-nodes by the exact simulator (encoder only)

    def var(self, name=None):
        self.nvars += 1
        if name is None:
            name = 'v%d' % self.nvars
        if name in self.varnames:
            name = '%s#%d' % (name, self.nvars)     # variable names must be unique (models are keyed by name)
        nid = len(self.nodes)
        self.nodes.append(('var', name))
        self.varnames[name] = nid
        return 2 * nid

    def neg(self, a):
        return a ^ 1

    def and_(self, a, b):
        if a == FALSE or b == FALSE:
            return FALSE
        if a == TRUE:
            return b
        if b == TRUE:
            return a
        if a == b:
            return a
        if a == (b ^ 1):
            return FALSE
        if a > b:
            a, b = b, a
        key = (a, b)
        r = self.tab.get(key)
        if r is None:
            nid = len(self.nodes)
            self.nodes.append(('and', a, b))
            r = 2 * nid
            sim = self.sim
            if sim is not None and sim.exact and self.fold:
                # semantic folding of conjunctions that can never hold / always hold (exact truth tables are
                # available while the job has few input bits): removes infeasible guard products at the source
                sim.extend()
                v = sim.vals[nid]
                if v == 0:
                    r = FALSE
                elif v == sim.mask:
                    r = TRUE
            self.tab[key] = r
        return r

    def or_(self, a, b):
        return self.and_(a ^ 1, b ^ 1) ^ 1

    def ite(self, c, a, b):
        if c == TRUE:
            return a
        if c == FALSE:
            return b
        if a == b:
            return a
        return self.or_(self.and_(c, a), self.and_(c ^ 1, b))

    def iff(self, a, b):
        return self.ite(a, b, b ^ 1)

    def all_(self, xs):
        r = TRUE
        for x in xs:
            r = self.and_(r, x)
            if r == FALSE:
                break
        return r

    def any_(self, xs):
        r = FALSE
        for x in xs:
            r = self.or_(r, x)
            if r == TRUE:
                break
        return r

    # ---- export -----------------------------------------------------
    def cone(self, roots):
        seen = set()
        order = []
        stack = [r >> 1 for r in roots]
        # iterative post-order
        while stack:
            n = stack.pop()
            if n >= 0:
                if n in seen or n == 0:
                    continue
                nd = self.nodes[n]
                if nd[0] == 'var':
                    seen.add(n)
                    order.append(n)
                else:
                    stack.append(~n)
                    stack.append(nd[1] >> 1)
                    stack.append(nd[2] >> 1)
            else:
                n = ~n
                if n in seen:
                    continue
                seen.add(n)
                order.append(n)
        return order

    def _lit(self, l):
        if l == TRUE:
            return 'true'
        if l == FALSE:
            return 'false'
        n = l >> 1
        nd = self.nodes[n]
        s = nd[1] if nd[0] == 'var' else 'n%d' % n
        return '(not %s)' % s if l & 1 else s

    def smt2(self, asserts):
        order = self.cone(asserts)
        out = ['(set-logic QF_UF)']
        for n in order:
            nd = self.nodes[n]
            if nd[0] == 'var':
                out.append('(declare-const %s Bool)' % nd[1])
        for n in order:
            nd = self.nodes[n]
            if nd[0] == 'and':
                out.append('(define-fun n%d () Bool (and %s %s))' % (n, self._lit(nd[1]), self._lit(nd[2])))
        for a in asserts:
            out.append('(assert %s)' % self._lit(a))
        return '\n'.join(out), order

    def eval(self, lit, model):
        """evaluate literal under model {varname: bool}; missing vars = False"""
        memo = {}
        order = self.cone([lit])
        for n in order:
            nd = self.nodes[n]
            if nd[0] == 'var':
                memo[n] = model.get(nd[1], False)
            else:
                a, b = nd[1], nd[2]
                va = (memo[a >> 1] if a >> 1 else False) ^ bool(a & 1)
                vb = (memo[b >> 1] if b >> 1 else False) ^ bool(b & 1)
                memo[n] = va and vb
        if lit >> 1 == 0:
            return bool(lit & 1)
        return memo[lit >> 1] ^ bool(lit & 1)


class Evaluator:
    """bit-parallel evaluation of the whole DAG under R models at once (model i = bit i)"""

    def __init__(self, dag, models):
        self.dag = dag
        self.models = models
        self.R = len(models)
        self.mask = (1 << self.R) - 1
        self.vals = [0]
        self.extend()

    def extend(self):
        nodes = self.dag.nodes
        vals = self.vals
        mask = self.mask
        models = self.models
        for n in range(len(vals), len(nodes)):
            nd = nodes[n]
            if nd[0] == 'var':
                v = 0
                name = nd[1]
                for i, m in enumerate(models):
                    if m.get(name, False):
                        v |= 1 << i
                vals.append(v)
            else:
                a, b = nd[1], nd[2]
                va = vals[a >> 1] ^ (mask if a & 1 else 0)
                vb = vals[b >> 1] ^ (mask if b & 1 else 0)
                vals.append(va & vb)

    def lit(self, l, i):
        if len(self.vals) < len(self.dag.nodes):
            self.extend()
        v = self.vals[l >> 1] ^ (self.mask if l & 1 else 0)
        return bool((v >> i) & 1)


class RandomEvaluator:
    """Bit-parallel simulation of the whole DAG, maintained incrementally; a cheap pre-check used only inside
    the encoder (loop-continuation tests, pruning of alternatives), never for an obligation's verdict.

    * while the job has at most EXHAUSTIVE variables the patterns are the complete truth tables (2^n bits per
      node): a literal is satisfiable iff its table is non-zero, so the pre-check is exact in both directions;
    * beyond that the existing patterns are kept as they are (they are still models) and new variables get
      pseudo-random bits: a set bit is a witness model, all-zero means "unknown" and the caller asks the solver."""

    EXHAUSTIVE = 11

    def __init__(self, dag, R=64, seed=12345):
        import random
        self.dag = dag
        self.R = 1                      # number of patterns (bits) per node
        self.mask = 1
        self.rng = random.Random(seed)
        self.vals = [0]
        self.nv = 0
        self.exact = True
        self.minR = R

    def _double(self):
        R = self.R
        self.vals = [v | (v << R) for v in self.vals]
        self.R = 2 * R
        self.mask = (1 << self.R) - 1

    def extend(self):
        nodes = self.dag.nodes
        vals = self.vals
        n = len(vals)
        while n < len(nodes):
            nd = nodes[n]
            if nd[0] == 'var':
                self.nv += 1
                if self.exact and self.nv <= self.EXHAUSTIVE:
                    R = self.R
                    self._double()
                    vals = self.vals
                    vals.append(((1 << R) - 1) << R)
                else:
                    if self.exact:
                        self.exact = False
                        while self.R < self.minR:
                            self._double()
                        vals = self.vals
                    vals.append(self.rng.getrandbits(self.R))
            else:
                mask = self.mask
                a, b = nd[1], nd[2]
                vals.append((vals[a >> 1] ^ (mask if a & 1 else 0)) & (vals[b >> 1] ^ (mask if b & 1 else 0)))
            n += 1

    def value(self, l):
        if len(self.vals) < len(self.dag.nodes):
            self.extend()
        return self.vals[l >> 1] ^ (self.mask if l & 1 else 0)

    def witness(self, lits):
        """index of a model satisfying all lits, or None (in exact mode None means unsatisfiable)"""
        if len(self.vals) < len(self.dag.nodes):
            self.extend()
        v = self.mask
        for l in lits:
            v &= self.vals[l >> 1] ^ (self.mask if l & 1 else 0)
            if not v:
                return None
        return (v & -v).bit_length() - 1

    def model(self, i):
        nodes = self.dag.nodes
        if len(self.vals) < len(nodes):
            self.extend()
        return {nd[1]: bool((self.vals[n] >> i) & 1) for n, nd in enumerate(nodes) if nd is not None and nd[0] == 'var'}
