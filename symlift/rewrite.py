"""AST rewriter: real gambatools source -> predicated ('lifted') source. Prototype."""
import ast
import sys
import importlib.abc
import importlib.machinery
import importlib.util


def _name(id, ctx=None):
    return ast.Name(id=id, ctx=ctx or ast.Load())


def _L(attr):
    return ast.Attribute(value=_name('_L_'), attr=attr, ctx=ast.Load())


def _call(fn, *args, **kw):
    return ast.Call(func=fn, args=list(args), keywords=[ast.keyword(arg=k, value=v) for k, v in kw.items()])


def _lam(body):
    return ast.Lambda(args=ast.arguments(posonlyargs=[], args=[], kwonlyargs=[], kw_defaults=[], defaults=[]), body=body)


def _const(v):
    return ast.Constant(value=v)


class _HasCtl(ast.NodeVisitor):
    """does a statement contain return/break/continue (not inside nested defs)?"""
    def __init__(self):
        self.found = False

    def visit_Return(self, n):
        self.found = True

    def visit_Break(self, n):
        self.found = True

    def visit_Continue(self, n):
        self.found = True

    def visit_Raise(self, n):
        pass

    def visit_FunctionDef(self, n):
        pass

    visit_AsyncFunctionDef = visit_FunctionDef
    visit_Lambda = visit_FunctionDef
    visit_ClassDef = visit_FunctionDef


def has_ctl(stmt):
    v = _HasCtl()
    v.visit(stmt)
    return v.found


class _HasYield(ast.NodeVisitor):
    def __init__(self):
        self.found = False

    def visit_Yield(self, n):
        self.found = True

    def visit_YieldFrom(self, n):
        self.found = True

    def visit_FunctionDef(self, n):
        pass

    visit_Lambda = visit_FunctionDef
    visit_ClassDef = visit_FunctionDef


class Lifter(ast.NodeTransformer):
    def __init__(self):
        self.counter = 0
        self.fr = None          # name of the current frame variable
        self.yield_acc = None

    def tmp(self, base='t'):
        self.counter += 1
        return '_L%s%d' % (base, self.counter)

    # ------------------------------------------------------------ module
    def visit_Module(self, node):
        body = []
        for s in node.body:
            r = self.top(s)
            body.extend(r if isinstance(r, list) else [r])
        node.body = [ast.Import(names=[ast.alias(name='symlift.engine', asname='_L_')])] + body
        return node

    def top(self, s):
        if isinstance(s, (ast.FunctionDef, ast.ClassDef)):
            return self.visit(s)
        return s   # module-level statements (imports, constants) run natively

    def visit_ClassDef(self, node):
        nb = []
        for s in node.body:
            r = self.visit(s) if isinstance(s, ast.FunctionDef) else s
            nb.extend(r if isinstance(r, list) else [r])
        node.body = nb
        node.body.append(ast.Assign(targets=[_name('__lifted_class__', ast.Store())], value=_const(True)))
        node.decorator_list = list(node.decorator_list) + [_L('WRAP_DUNDERS')]
        return node

    # ------------------------------------------------------------ functions
    def visit_FunctionDef(self, node):
        saved_loads = getattr(self, 'loads', None)
        self.loads = {}
        for sub in ast.walk(node):
            if isinstance(sub, ast.Name) and isinstance(sub.ctx, ast.Load):
                self.loads.setdefault(sub.id, []).append(sub.lineno)
        try:
            return self._visit_FunctionDef(node)
        finally:
            self.loads = saved_loads

    def _visit_FunctionDef(self, node):
        saved = (self.fr, self.yield_acc)
        self.fr = self.tmp('fr')
        hy = _HasYield()
        for s in node.body:
            hy.visit(s)
        self.yield_acc = self.tmp('acc') if hy.found else None
        # defaults / decorators are evaluated in the enclosing scope: rewrite as expressions
        node.args.defaults = [self.visit(d) for d in node.args.defaults]
        node.args.kw_defaults = [self.visit(d) if d is not None else None for d in node.args.kw_defaults]
        body = node.body
        doc = []
        if body and isinstance(body[0], ast.Expr) and isinstance(body[0].value, ast.Constant) and isinstance(body[0].value.value, str):
            doc = [body[0]]
            body = body[1:]
        inner = []
        if self.yield_acc:
            inner.append(ast.Assign(targets=[_name(self.yield_acc, ast.Store())], value=_call(_L('GList'))))
        inner += self.block(body)
        if self.yield_acc:
            inner.append(ast.Return(value=_name(self.yield_acc)))
        else:
            inner.append(ast.Return(value=_call(_L('RESULT'), _name(self.fr))))
        new = doc + [
            ast.Assign(targets=[_name(self.fr, ast.Store())], value=_call(_L('ENTER'))),
            ast.Try(body=inner, handlers=[], orelse=[],
                    finalbody=[ast.Expr(_call(_L('LEAVE'), _name(self.fr)))]),
        ]
        node.body = new
        self.fr, self.yield_acc = saved
        # mark as lifted
        mark = ast.Assign(targets=[ast.Attribute(value=_name(node.name), attr='__lifted__', ctx=ast.Store())], value=_const(True))
        if any(isinstance(d, ast.Name) and d.id in ('staticmethod', 'classmethod', 'property') for d in node.decorator_list):
            return node
        return [node, mark]

    def visit_Lambda(self, node):
        node.body = self.visit(node.body)
        return node

    # ------------------------------------------------------------ blocks
    def block(self, stmts):
        out = []
        for i, s in enumerate(stmts):
            r = self.visit(s)
            if isinstance(r, list):
                out.extend(r)
            elif r is not None:
                out.append(r)
            if has_ctl(s) and i + 1 < len(stmts) and self.fr:
                rest = self.block(stmts[i + 1:])
                b = self.tmp('b')
                out.append(ast.For(
                    target=_name(b, ast.Store()), iter=_call(_L('ALIVE'), _name(self.fr)),
                    body=[ast.With(items=[ast.withitem(context_expr=_name(b))], body=rest)],
                    orelse=[]))
                break
        return out or [ast.Pass()]

    # ------------------------------------------------------------ statements
    def visit_Return(self, node):
        val = self.visit(node.value) if node.value is not None else _const(None)
        if self.yield_acc:
            return ast.Expr(_call(_L('RET'), _name(self.fr), _const(None)))
        return ast.If(test=_call(_L('RET'), _name(self.fr), val),
                      body=[ast.Return(value=_call(_L('RESULT'), _name(self.fr)))], orelse=[])

    def visit_Expr(self, node):
        if isinstance(node.value, ast.Yield):
            v = self.visit(node.value.value) if node.value.value is not None else _const(None)
            return ast.Expr(_call(ast.Attribute(value=_name(self.yield_acc), attr='append', ctx=ast.Load()), v))
        node.value = self.visit(node.value)
        return node

    def visit_If(self, node):
        if self.fr is None:
            return self.generic_visit(node)
        b = self.tmp('b')
        test = self.visit(node.test)
        body = self.block(node.body)
        orelse = self.block(node.orelse) if node.orelse else [ast.Pass()]
        inner = ast.If(test=ast.Attribute(value=_name(b), attr='which', ctx=ast.Load()), body=body, orelse=orelse)
        return ast.For(target=_name(b, ast.Store()), iter=_call(_L('SPLIT'), test),
                       body=[ast.With(items=[ast.withitem(context_expr=_name(b))], body=[inner])], orelse=[])

    def visit_While(self, node):
        if node.orelse:
            raise NotImplementedError('while-else')
        lp = self.tmp('lp')
        it = self.tmp('it')
        test = self.visit(node.test)
        body = self.block(node.body)
        return [
            ast.Assign(targets=[_name(lp, ast.Store())], value=_call(_L('LOOP'), _name(self.fr))),
            ast.For(target=_name(it, ast.Store()),
                    iter=_call(_L('WHILE'), _name(self.fr), _name(lp), _lam(test), _const('line %d' % node.lineno)),
                    body=[ast.With(items=[ast.withitem(context_expr=_name(it))], body=body)], orelse=[]),
            ast.Expr(_call(_L('ENDLOOP'), _name(self.fr), _name(lp))),
        ]

    def visit_For(self, node):
        if node.orelse:
            raise NotImplementedError('for-else')
        if self.fr is None:
            return self.generic_visit(node)
        lp = self.tmp('lp')
        it = self.tmp('it')
        v = self.tmp('v')
        iterable = self.visit(node.iter)
        dead_after = (not __import__('os').environ.get('NOELIDE')) and all(all(ln <= node.end_lineno for ln in (self.loads or {}).get(nm, [])) for nm in target_names(node.target))
        assign = self.assign_target(node.target, _name(v), phi=not dead_after)
        body = assign + self.block(node.body)
        return [
            ast.Assign(targets=[_name(lp, ast.Store())], value=_call(_L('LOOP'), _name(self.fr))),
            ast.For(target=ast.Tuple(elts=[_name(it, ast.Store()), _name(v, ast.Store())], ctx=ast.Store()),
                    iter=_call(_L('FOR'), _name(self.fr), _name(lp), iterable),
                    body=[ast.With(items=[ast.withitem(context_expr=_name(it))], body=body)], orelse=[]),
            ast.Expr(_call(_L('ENDLOOP'), _name(self.fr), _name(lp))),
        ]

    def visit_Try(self, node):
        if self.fr is None or node.orelse:
            raise NotImplementedError('try at module level / try-else')
        t = self.tmp('try')
        x = self.tmp('x')
        h = self.tmp('h')
        body = self.block(node.body)
        types = []
        chain = None
        for i, hd in reversed(list(enumerate(node.handlers))):
            hb = []
            if hd.name:
                hb += self.assign_target(_name(hd.name, ast.Store()), ast.Attribute(value=_name(h), attr='exc', ctx=ast.Load()))
            hb += self.block(hd.body)
            test = ast.Compare(left=ast.Attribute(value=_name(h), attr='index', ctx=ast.Load()), ops=[ast.Eq()], comparators=[_const(i)])
            chain = ast.If(test=test, body=hb, orelse=[chain] if chain else [])
        for hd in node.handlers:
            types.append(hd.type if hd.type is not None else _const(None))
        out = [
            ast.Assign(targets=[_name(t, ast.Store())], value=_call(_L('TRY_BEGIN'))),
            ast.Try(body=body,
                    handlers=[ast.ExceptHandler(type=_name('Exception'), name=x,
                                                body=[ast.Expr(_call(_L('TRY_NATIVE'), _name(t), _name(x)))])],
                    orelse=[], finalbody=[]),
            ast.For(target=_name(h, ast.Store()), iter=_call(_L('TRY_HANDLERS'), _name(t), ast.List(elts=types, ctx=ast.Load())),
                    body=[ast.With(items=[ast.withitem(context_expr=_name(h))], body=[chain])], orelse=[]),
        ]
        if node.finalbody:
            out += self.block(node.finalbody)
        return out

    def visit_Break(self, node):
        return ast.Expr(_call(_L('BREAK'), _name(self.fr)))

    def visit_Continue(self, node):
        return ast.Expr(_call(_L('CONTINUE'), _name(self.fr)))

    def visit_Assert(self, node):
        args = [self.visit(node.test)]
        if node.msg is not None:
            args.append(_lam(self.visit(node.msg)))
        return ast.Expr(_call(_L('ASSERT'), *args))

    def visit_Raise(self, node):
        if node.exc is None:
            return node
        return ast.Expr(_call(_L('RAISE'), self.visit(node.exc)))

    def assign_target(self, target, value_expr, phi=True):
        """statements assigning value_expr (an expression AST, evaluated once) to target"""
        if isinstance(target, ast.Name):
            if self.fr is None or not phi:
                return [ast.Assign(targets=[_name(target.id, ast.Store())], value=value_expr)]
            return [ast.Assign(targets=[_name(target.id, ast.Store())],
                               value=_call(_L('PHI'), value_expr, _lam(_name(target.id))))]
        if isinstance(target, (ast.Tuple, ast.List)):
            t = self.tmp('u')
            out = [ast.Assign(targets=[_name(t, ast.Store())], value=_call(_L('UNPACK'), value_expr, _const(len(target.elts))))]
            for i, e in enumerate(target.elts):
                if isinstance(e, ast.Starred):
                    raise NotImplementedError('starred target')
                out += self.assign_target(e, ast.Subscript(value=_name(t), slice=_const(i), ctx=ast.Load()), phi=phi)
            return out
        if isinstance(target, ast.Subscript):
            return [ast.Expr(_call(_L('SETITEM'), self.visit(target.value), self.visit_slice(target.slice), value_expr))]
        if isinstance(target, ast.Attribute):
            return [ast.Expr(_call(_L('SETATTR'), self.visit(target.value), _const(target.attr), value_expr))]
        raise NotImplementedError('assign target %r' % target)

    def visit_Assign(self, node):
        if len(node.targets) == 1 and isinstance(node.targets[0], (ast.Tuple, ast.List)) and \
                any(isinstance(e, ast.Starred) for e in node.targets[0].elts):
            # a, b, *rest, z = value   ->   t = list(value); a = t[0]; b = t[1]; rest = t[2:len(t)-1]; z = t[-1]
            # (a too short value fails with IndexError instead of ValueError: an exception either way)
            elts = node.targets[0].elts
            star = [i for i, e in enumerate(elts) if isinstance(e, ast.Starred)][0]
            after = len(elts) - star - 1
            t = self.tmp('s')
            stmts = [ast.Assign(targets=[_name(t, ast.Store())], value=ast.Call(func=_name('list'), args=[node.value], keywords=[]))]
            for i, e in enumerate(elts):
                if i < star:
                    v = ast.Subscript(value=_name(t), slice=_const(i), ctx=ast.Load())
                elif i == star:
                    upper = ast.BinOp(left=ast.Call(func=_name('len'), args=[_name(t)], keywords=[]), op=ast.Sub(), right=_const(after)) if after else None
                    v = ast.Subscript(value=_name(t), slice=ast.Slice(lower=_const(star), upper=upper), ctx=ast.Load())
                    e = e.value
                else:
                    v = ast.Subscript(value=_name(t), slice=_const(i - len(elts)), ctx=ast.Load())
                stmts.append(ast.Assign(targets=[e], value=v))
            out = []
            for st in stmts:
                ast.copy_location(st, node)
                ast.fix_missing_locations(st)
                r = self.visit(st)
                out += r if isinstance(r, list) else [r]
            return out
        value = self.visit(node.value)
        if len(node.targets) == 1:
            return self.assign_target(node.targets[0], value)
        t = self.tmp('m')
        out = [ast.Assign(targets=[_name(t, ast.Store())], value=value)]
        for tg in node.targets:
            out += self.assign_target(tg, _name(t))
        return out

    def visit_AnnAssign(self, node):
        if node.value is None:
            return None
        return self.assign_target(node.target, self.visit(node.value))

    def visit_AugAssign(self, node):
        op = type(node.op).__name__
        tgt = node.target
        if isinstance(tgt, ast.Name):
            cur = _name(tgt.id)
            return self.assign_target(tgt, _call(_L('IOP'), _const(op), cur, self.visit(node.value)))
        if isinstance(tgt, ast.Subscript):
            o = self.tmp('o')
            k = self.tmp('k')
            return [
                ast.Assign(targets=[_name(o, ast.Store())], value=self.visit(tgt.value)),
                ast.Assign(targets=[_name(k, ast.Store())], value=self.visit_slice(tgt.slice)),
                ast.Expr(_call(_L('SETITEM'), _name(o), _name(k),
                               _call(_L('IOP'), _const(op), _call(_L('GETITEM'), _name(o), _name(k)), self.visit(node.value)))),
            ]
        if isinstance(tgt, ast.Attribute):
            o = self.tmp('o')
            return [
                ast.Assign(targets=[_name(o, ast.Store())], value=self.visit(tgt.value)),
                ast.Expr(_call(_L('SETATTR'), _name(o), _const(tgt.attr),
                               _call(_L('IOP'), _const(op), ast.Attribute(value=_name(o), attr=tgt.attr, ctx=ast.Load()), self.visit(node.value)))),
            ]
        raise NotImplementedError('augassign')

    def visit_Delete(self, node):
        out = []
        for t in node.targets:
            if isinstance(t, ast.Subscript):
                out.append(ast.Expr(_call(_L('DELITEM'), self.visit(t.value), self.visit_slice(t.slice))))
            else:
                out.append(ast.Delete(targets=[t]))
        return out

    # ------------------------------------------------------------ expressions
    def visit_slice(self, s):
        if isinstance(s, ast.Slice):
            return _call(_name('slice'),
                         self.visit(s.lower) if s.lower else _const(None),
                         self.visit(s.upper) if s.upper else _const(None),
                         self.visit(s.step) if s.step else _const(None))
        return self.visit(s)

    def visit_BoolOp(self, node):
        fn = 'AND' if isinstance(node.op, ast.And) else 'OR'
        return _call(_L(fn), *[_lam(self.visit(v)) for v in node.values])

    def visit_UnaryOp(self, node):
        if isinstance(node.op, ast.Not):
            return _call(_L('NOT'), self.visit(node.operand))
        if isinstance(node.op, ast.USub) and isinstance(node.operand, ast.Constant):
            return node
        return _call(_L('UNOP'), _const(type(node.op).__name__), self.visit(node.operand))

    def visit_Compare(self, node):
        left = self.visit(node.left)
        if len(node.ops) == 1:
            return _call(_L('CMP'), _const(type(node.ops[0]).__name__), left, self.visit(node.comparators[0]))
        # chain: a < b < c  ->  (lambda t: AND(lambda: CMP(a, t), lambda: CMP(t, c)))(b), nested for longer chains (a walrus
        # inside the thunks would bind in the thunk's own scope and be invisible to the next one)
        def chain(prev, ops, comps):
            if len(ops) == 1:
                return _call(_L('CMP'), _const(type(ops[0]).__name__), prev, self.visit(comps[0]))
            t = self.tmp('c')
            body = _call(_L('AND'), _lam(_call(_L('CMP'), _const(type(ops[0]).__name__), prev, _name(t))), _lam(chain(_name(t), ops[1:], comps[1:])))
            fn = ast.Lambda(args=ast.arguments(posonlyargs=[], args=[ast.arg(arg=t)], kwonlyargs=[], kw_defaults=[], defaults=[]), body=body)
            return ast.Call(func=fn, args=[self.visit(comps[0])], keywords=[])
        return chain(left, list(node.ops), list(node.comparators))

    def visit_IfExp(self, node):
        return _call(_L('IFEXP'), self.visit(node.test), _lam(self.visit(node.body)), _lam(self.visit(node.orelse)))

    def visit_Call(self, node):
        if any(isinstance(a, ast.Starred) for a in node.args):
            items = [ast.Tuple(elts=[_const(isinstance(a, ast.Starred)), self.visit(a.value if isinstance(a, ast.Starred) else a)], ctx=ast.Load()) for a in node.args]
            kws = [ast.keyword(arg=k.arg, value=self.visit(k.value)) for k in node.keywords]
            f = node.func
            if isinstance(f, ast.Attribute):
                return ast.Call(func=_L('CALL_STAR'), args=[self.visit(f.value), _const(f.attr), ast.List(elts=items, ctx=ast.Load())], keywords=kws)
            return ast.Call(func=_L('CALL_STAR'), args=[self.visit(f), _const(None), ast.List(elts=items, ctx=ast.Load())], keywords=kws)
        args = [self.visit(a) for a in node.args]
        kws = [ast.keyword(arg=k.arg, value=self.visit(k.value)) for k in node.keywords]
        f = node.func
        if isinstance(f, ast.Attribute):
            if isinstance(f.value, ast.Name) and f.value.id == '_L_':
                return ast.Call(func=f, args=args, keywords=kws)
            return ast.Call(func=_L('CALLM'), args=[self.visit(f.value), _const(f.attr)] + args, keywords=kws)
        if isinstance(f, ast.Name) and f.id == 'super':
            return ast.Call(func=f, args=args, keywords=kws)
        if isinstance(f, ast.Name) and f.id == 'log':
            # logging stub: the (pure, formatting-only) arguments are evaluated only when logging may be on
            return _call(_L('LOGCALL'), _lam(ast.Call(func=_L('CALL'), args=[self.visit(f)] + args, keywords=kws)))
        return ast.Call(func=_L('CALL'), args=[self.visit(f)] + args, keywords=kws)

    def visit_Subscript(self, node):
        if isinstance(node.ctx, ast.Load):
            return _call(_L('GETITEM'), self.visit(node.value), self.visit_slice(node.slice))
        return self.generic_visit(node)

    def visit_BinOp(self, node):
        return _call(_L('BINOP'), _const(type(node.op).__name__), self.visit(node.left), self.visit(node.right))

    def visit_Set(self, node):
        return _call(_L('MKSET'), ast.List(elts=[self.visit(e) for e in node.elts], ctx=ast.Load()))

    def visit_List(self, node):
        if isinstance(node.ctx, ast.Load):
            if any(isinstance(e, ast.Starred) for e in node.elts):
                raise NotImplementedError('starred list')
            return _call(_L('GList'), ast.List(elts=[self.visit(e) for e in node.elts], ctx=ast.Load()))
        return self.generic_visit(node)

    def visit_Dict(self, node):
        pairs = [ast.Tuple(elts=[self.visit(k), self.visit(v)], ctx=ast.Load()) for k, v in zip(node.keys, node.values)]
        return _call(_L('MKDICT'), ast.List(elts=pairs, ctx=ast.Load()))

    def visit_JoinedStr(self, node):
        parts = []
        for v in node.values:
            if isinstance(v, ast.Constant):
                parts.append(v)
            else:
                if v.format_spec is not None or v.conversion != -1:
                    raise NotImplementedError('f-string format spec')
                parts.append(self.visit(v.value))
        return _call(_L('FSTRING'), *parts)

    # comprehensions -> nested lambdas + engine hooks
    def visit_ListComp(self, node):
        return self._comp_inline(node, 'list')

    def visit_SetComp(self, node):
        return self._comp_inline(node, 'set')

    def visit_DictComp(self, node):
        return self._comp_inline(node, 'dict')

    def visit_GeneratorExp(self, node):
        return self._comp_inline(node, 'list')

    def _comp_inline(self, node, kind):
        """expression-position comprehension: _L_.COMP(kind, lambda emit: <nested lambdas>) is awkward;
        instead build nested calls: _L_.COMPFOR(iter, lambda tgt...: ...)"""
        # innermost expression
        if kind == 'dict':
            inner = ast.Tuple(elts=[node.key, node.value], ctx=ast.Load())
        else:
            inner = node.elt
        # Build from inside out: for each generator: COMPFOR(iter, lambda v: [conds], lambda v: inner)
        expr = ('elt', inner)
        gens = node.generators

        def build(i):
            if i == len(gens):
                return _call(_L('COMP_EMIT'), self.visit(inner))
            gen = gens[i]
            v = self.tmp('cv')
            # bind target(s) via nested lambda parameters: use a helper that unpacks
            names = target_names(gen.target)
            for j in range(len(names)):
                if names[j] in names[j + 1:]:
                    names[j] = self.tmp('dup')
            body = build(i + 1)
            for cond in reversed(gen.ifs):
                body = _call(_L('COMP_IF'), self.visit(cond), _lam(body))
            lam = ast.Lambda(
                args=ast.arguments(posonlyargs=[], args=[ast.arg(arg=n) for n in names], kwonlyargs=[], kw_defaults=[], defaults=[]),
                body=body)
            return _call(_L('COMP_FOR'), self.visit(gen.iter), _const(target_shape(gen.target)), lam)

        return _call(_L('COMP'), _const(kind), _lam(build(0)))


def target_names(t):
    if isinstance(t, ast.Name):
        return [t.id]
    out = []
    for e in t.elts:
        out += target_names(e)
    return out


def target_shape(t):
    """nested shape descriptor: 0 for a name, tuple of shapes for tuple targets"""
    if isinstance(t, ast.Name):
        return 0
    return tuple(target_shape(e) for e in t.elts)


def lift_source(src, filename='<lifted>'):
    tree = ast.parse(src, filename)
    tree = Lifter().visit(tree)
    ast.fix_missing_locations(tree)
    return tree


# ---------------------------------------------------------------- import hook
SKIP = {'regexpParser', 'regexpLexer', 'regexpVisitor', 'regexp_simpleParser', 'regexp_simpleLexer',
        'regexp_simpleVisitor', 'CFGParser', 'CFGLexer', 'CFGVisitor', 'regular_expressionsLexer',
        'draw_sigma', 'dfa_io', 'nfa_io', 'automaton_io', 'notebook_sigma'}


class LiftLoader(importlib.abc.Loader):
    def __init__(self, path, fullname):
        self.path = path
        self.fullname = fullname

    def create_module(self, spec):
        return None

    def exec_module(self, module):
        with open(self.path) as f:
            src = f.read()
        tree = lift_source(src, self.path)
        code = compile(tree, self.path, 'exec')
        from . import engine
        module.__dict__['_L_'] = engine
        # shadow builtins that must be symbolic-aware when *referenced* (not only called)
        module.__dict__['itertools'] = engine.ITERTOOLS
        exec(code, module.__dict__)
        # 'import itertools' inside the module rebinds the name: re-shadow
        if 'itertools' in module.__dict__:
            module.__dict__['itertools'] = engine.ITERTOOLS


class LiftFinder(importlib.abc.MetaPathFinder):
    def __init__(self, pkgdir):
        self.pkgdir = pkgdir

    def find_spec(self, fullname, path, target=None):
        if not fullname.startswith('gambatools.'):
            return None
        mod = fullname.split('.', 1)[1]
        if mod in SKIP or '.' in mod:
            return None
        import os
        p = os.path.join(self.pkgdir, mod + '.py')
        if not os.path.exists(p):
            return None
        return importlib.util.spec_from_loader(fullname, LiftLoader(p, fullname), origin=p)


def install(pkgdir='/repo/src/gambatools'):
    sys.meta_path.insert(0, LiftFinder(pkgdir))
