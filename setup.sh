#!/bin/bash
# Builds the overlay virtualenv used by every check: /venv's packages (gambatools editable install,
# antlr4 runtime, ...) plus z3-solver and crosshair-tool from the offline wheelhouse. Idempotent.
set -e
cd "$(dirname "$0")"
if [ ! -x .venv/bin/python ] || ! .venv/bin/python -c "import crosshair, z3" 2>/dev/null; then
  rm -rf .venv
  /venv/bin/python -m venv .venv
  echo "import site; site.addsitedir('/venv/lib/python3.12/site-packages')" > .venv/lib/python3.12/site-packages/_overlay.pth
  PIP_NO_INDEX=1 .venv/bin/pip install -q --no-index --find-links /opt/veriftools/wheels z3-solver crosshair-tool
fi
.venv/bin/python -c "import z3, crosshair, gambatools; print('setup ok: z3', z3.get_version_string())"
