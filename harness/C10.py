"""C10 -- PDA normal forms and the PDA-to-CFG conversion preserve the language."""
from . import common as c
from . import nat
from .common import E, L, TRUE, FALSE
from .C09 import family, STATES

META = {
    'bounds': {'quick': 'PDAs with states p, q over {a} with stack alphabet {x} / {x, y} / {x, $} / {x, ∅}: fixed plus 5-6 symbolic '
                        'candidate transitions per family, accepting set symbolic (none, one, both); words of length <= 2; '
                        'computations with at most K = 2 epsilon moves per phase on the source side',
               'thorough': '7-8 symbolic transitions, words <= 3, K = 3'},
    'outside': 'PDAs outside the families; longer words; source computations with more epsilon moves per phase than K (the '
               'comparison is between bounded reference semantics on both sides, with the step budget of the target side '
               'enlarged by the overhead of the construction)',
    'oracle': 'configuration semantics (as C09) on the argument and on the automaton read back from the result; derivability '
              'fixpoint (as C07) on the grammar read back from pda_to_cfg',
    'assumptions': ['argument PDA valid', "the stack alphabet does not contain the dummy symbol '∅' when the push/pop conversion is "
                    'used (documented assert) -- a separate job checks that this precondition failure is an AssertionError, not a wrong result'],
}


def ref_accepts(ref, word, K):
    cur, _ = ref.closure(ref.initial(), K)
    for a in word:
        cur, _ = ref.closure(ref.moves(cur, a), K)
    return ref.accepts_lit(cur), cur


def pda_valid_bad(Q, trans, F, q0, Gam, eps):
    d = E.dag
    bad = d.any_(d.and_(g, Q.get(q, FALSE) ^ 1) for q, g in q0.items())
    bad = d.or_(bad, d.any_(d.and_(g, Q.get(q, FALSE) ^ 1) for q, g in F.items()))
    bad = d.or_(bad, Gam.get(eps, FALSE))
    for lit, (p, a, u, q, v) in trans:
        for s in (p, q):
            bad = d.or_(bad, d.and_(lit, Q.get(s, FALSE) ^ 1))
        for s in (u, v):
            if s != eps:
                bad = d.or_(bad, d.and_(lit, Gam.get(s, FALSE) ^ 1))
    return bad


def job_transform(job, fam, what, maxlen, K=2, eps='_', seed=0, nsym=6, gamma=None):
    import copy
    import gambatools.pda_algorithms as PA
    from .pda_sym import sym_pda, pda_json, RefPDA, read_pda
    from .harness_util import count_map
    job.functions('pda_algorithms', ['pda_to_one_accepting_state_in_place', 'pda_to_accept_on_empty_stack_in_place', 'pda_to_push_pop_in_place',
                                     'pda_to_accept_on_empty_stack', 'pda_to_push_pop', 'pda_is_push_pop', 'fresh_symbol', 'pda_to_cfg'])
    job.functions('dfa_algorithms', ['fresh_state'])
    d = E.dag
    g0, fixed, sym = family(fam, eps, seed, nsym)
    gamma = list(gamma) if gamma else g0
    ren = {'x': gamma[0], 'y': gamma[1] if len(gamma) > 1 else gamma[0]}
    fixed = [tuple(ren.get(s, s) if i in (2, 4) else s for i, s in enumerate(t)) for t in fixed]
    sym = [tuple(ren.get(s, s) if i in (2, 4) else s for i, s in enumerate(t)) for t in sym]
    sigma = ['a']
    P, trans, fbits = sym_pda(STATES, sigma, gamma, eps, fixed, sym)
    dec = pda_json(STATES, sigma, gamma, eps, trans, fbits, 'p')
    job.inputs['P'] = P
    job.decoders['P'] = dec
    E.while_bound = 40
    rp = ('transform', {'P': dec, 'what': what, 'maxlen': maxlen})
    if what == 'one_accepting':
        P1 = L.DEEPCOPY(P, {})
        r = job.call(PA.pda_to_one_accepting_state_in_place, P1, replay=rp)
        if getattr(job, 'failed_call', False):
            P1 = None
    elif what == 'push_pop':
        P1 = job.call(PA.pda_to_push_pop, P, replay=rp)
    elif what == 'empty_stack':
        P1 = job.call(PA.pda_to_accept_on_empty_stack, P, replay=rp)
    elif what == 'cfg':
        P1 = job.call(PA.pda_to_cfg, P, replay=rp)
    job.lifted()
    if P1 is None:
        return job.solve()
    words = c.words_upto(sigma, maxlen)
    src = RefPDA(trans, fbits, {'p': TRUE}, eps, maxdepth=(K + 1) * (maxlen + 1) + maxlen + 2)
    if what == 'cfg':
        from .cfg_sym import read_cfg, GrammarSem
        ents = read_cfg(P1)
        vs = [str(v) for v in L._setview(P1.V).m]
        start = {str(k): g for g, k in E.alts(P1.S)}
        job.result['notes'].append('grammar: %d variables, %d candidate rules' % (len(vs), len(ents)))
        Kbig = 2 * K + 2
        big = RefPDA(trans, fbits, {'p': TRUE}, eps, maxdepth=(Kbig + 1) * (maxlen + 1) + maxlen + 2)
        for w in words:
            sem = GrammarSem([(lit, X, rhs) for lit, X, rhs, kinds in ents], vs, w, fold=True)
            gen = d.any_(d.and_(g, sem.derives(X)) for X, g in start.items())
            acc_small, _ = ref_accepts(src, w, K)
            acc_big, _ = ref_accepts(big, w, Kbig)
            job.oblige('grammar generates %r if the PDA accepts it (with at most %d epsilon moves per phase)' % (w, K), d.and_(acc_small, gen ^ 1), replay=rp)
            job.oblige('PDA accepts %r if the grammar generates it' % w, d.and_(gen, acc_big ^ 1), replay=rp)
    else:
        Q1, t1, F1, q01, Gam1, eps1 = read_pda(P1)
        job.oblige('result is a valid PDA (declared states / stack symbols, epsilon not a stack symbol)', pda_valid_bad(Q1, t1, F1, q01, Gam1, eps1), replay=rp)
        K1 = {'one_accepting': K + 1, 'push_pop': 2 * K + 2, 'empty_stack': K + 3 + (K + 1) * (maxlen + 1)}[what]
        tgt = RefPDA(t1, F1, q01, eps1, maxdepth=(K1 + 1) * (maxlen + 1) + maxlen + 3)
        tgt_small = RefPDA(t1, F1, q01, eps1, maxdepth=(K + 1) * (maxlen + 1) + maxlen + 3)
        for w in words:
            a_src, _ = ref_accepts(src, w, K)
            a_tgt_big, cur_big = ref_accepts(tgt, w, K1)
            a_tgt, _ = ref_accepts(tgt_small, w, K)
            a_src_same, _ = ref_accepts(src, w, K)
            job.oblige('%s: result accepts %r if the argument does (<= %d epsilon moves per phase)' % (what, w, K), d.and_(a_src, a_tgt_big ^ 1), replay=rp)
            job.oblige('%s: argument accepts %r if the result does' % (what, w), d.and_(a_tgt, a_src_same ^ 1), replay=rp)
            if what == 'empty_stack':
                job.oblige('empty_stack: the result accepts %r only with an empty stack' % w,
                           d.any_(d.and_(g, F1.get(q, FALSE)) for (q, st), g in cur_big.items() if st), replay=rp)
        if what == 'push_pop':
            job.oblige('push_pop: every transition of the result either pushes or pops',
                       d.any_(lit for lit, (p, a, u, q, v) in t1 if (u == eps1) == (v == eps1)), replay=rp)
            job.oblige('pda_is_push_pop(result)', E.lit(PA.pda_is_push_pop(P1)) ^ 1, replay=rp)
        if what in ('one_accepting', 'empty_stack'):
            size = count_map([g for g in F1.values()])
            job.oblige('%s: exactly one accepting state' % what if what == 'empty_stack' else 'one_accepting: at most one accepting state (exactly one if there was any)',
                       d.any_(g for k, g in size.items() if k > 1) if what == 'one_accepting' else d.any_(g for k, g in size.items() if k != 1), replay=rp)
    # argument untouched by the copying functions
    if what != 'one_accepting':
        Q0, t0, F0, q00, Gam0, _ = read_pda(P)
        before = {t: lit for lit, t in trans}
        after = {}
        for lit, t in t0:
            after[t] = d.or_(after.get(t, FALSE), lit)
        changed = d.any_(d.iff(before.get(t, FALSE), after.get(t, FALSE)) ^ 1 for t in set(before) | set(after))
        changed = d.or_(changed, d.any_(d.iff(fbits.get(s, FALSE), F0.get(s, FALSE)) ^ 1 for s in set(fbits) | set(F0)))
        changed = d.or_(changed, d.any_(g for s, g in Q0.items() if s not in STATES))
        changed = d.or_(changed, d.any_(g for s, g in Gam0.items() if s not in gamma))
        changed = d.or_(changed, d.any_(g for s, g in q00.items() if s != 'p'))
        job.oblige('argument PDA unchanged', changed, replay=rp)
    job.failures_as_obligations(replay=rp)
    return job.solve()


def jobs(tier):
    J = []

    def add(name, timeout=None, **params):
        J.append({'name': name, 'fn': job_transform, 'params': params, **({'timeout': timeout} if timeout else {})})
    quick = tier == 'quick'
    ns = 5 if quick else 7
    ml = 2 if quick else 3
    tmo = 900 if quick else 3000
    for what in ('one_accepting', 'push_pop', 'empty_stack', 'cfg'):
        for fam in ('grow_cycle', 'replace_and_pop', 'two_stack_symbols', 'replace_only'):
            n_ = ns if what != 'cfg' else min(ns, 5)
            if fam in ('two_stack_symbols', 'replace_only'):
                n_ = min(n_, 4)
            if what == 'cfg' and quick and fam in ('two_stack_symbols', 'replace_and_pop', 'replace_only'):
                continue
            add('%s_%s' % (what, fam), fam=fam, what=what, maxlen=ml if what != 'cfg' else min(ml, 2), nsym=n_, timeout=tmo)
        for seed in range(2 if quick else 6):
            if what == 'cfg' and quick and seed > 0:
                continue
            add('%s_random%d' % (what, seed), fam='random', seed=seed, what=what, maxlen=ml if what != 'cfg' else 2, nsym=ns if what != 'cfg' else min(ns, 5), timeout=tmo)
    # stack symbols that collide with the markers the constructions want to use
    add('empty_stack_marker_collision', fam='replace_and_pop', what='empty_stack', maxlen=ml, nsym=ns, gamma=['$', '@'], timeout=tmo)
    add('cfg_marker_collision', fam='replace_and_pop', what='cfg', maxlen=2, nsym=4, gamma=['$'], timeout=tmo)
    add('one_accepting_eps_empty', fam='replace_and_pop', what='one_accepting', maxlen=ml, nsym=ns, eps='', timeout=tmo)
    return J


# ------------------------------------------------------------------ native replay
def _lang_pda(js, words, max_confs=4000):
    out = set()
    for w in words:
        acc, complete, sizes = nat.ref_pda_run(js, w, max_confs)
        if acc:
            out.add(w)
    return out


def _replay_transform(rp):
    import copy
    import gambatools.pda_algorithms as PA
    from gambatools.global_settings import GambaTools
    js = rp['P']
    P = nat.mk_pda(js)
    before = nat.pda_json_of(P)
    what = rp['what']
    words = nat.words_upto(js['Sigma'], rp['maxlen'])
    exp = _lang_pda(js, words)
    problems = []
    try:
        if what == 'one_accepting':
            P1 = copy.deepcopy(P)
            PA.pda_to_one_accepting_state_in_place(P1)
        elif what == 'push_pop':
            P1 = PA.pda_to_push_pop(P)
        elif what == 'empty_stack':
            P1 = PA.pda_to_accept_on_empty_stack(P)
        else:
            G = PA.pda_to_cfg(P)
    except Exception as e:
        return True, {'library raised': repr(e)}
    if what == 'cfg':
        gj = nat.cfg_json_of(G)
        got = {w for w in words if nat.ref_cfg_accepts(gj, w)}
    else:
        j1 = nat.pda_json_of(P1)
        try:
            nat.mk_pda(j1)
        except Exception as e:
            problems.append('result invalid: %r' % e)
        got = _lang_pda(j1, words)
        if what == 'push_pop' and any((u == j1['epsilon']) == (v == j1['epsilon']) for p, a, u, q, v in j1['delta']):
            problems.append('transition that neither pushes nor pops')
        if what == 'empty_stack':
            for w in words:
                confs, ok = nat.ref_pda_closure(j1, {(j1['q0'], ())})
                for a in w:
                    confs, ok = nat.ref_pda_closure(j1, nat.ref_pda_step(j1, confs, a))
                if any(q in set(j1['F']) and st for q, st in confs):
                    problems.append('accepts %r with a non-empty stack' % w)
        if what in ('empty_stack',) and len(j1['F']) != 1:
            problems.append('%d accepting states' % len(j1['F']))
    if got != exp:
        problems.append('language differs on %r' % sorted(got ^ exp, key=lambda w: (len(w), w))[:3])
    if what != 'one_accepting' and nat.pda_json_of(P) != before:
        problems.append('argument modified')
    return bool(problems), {'problems': problems[:4]}


REPLAY = {'transform': _replay_transform}
