"""Symbolic regular-expression skeletons and the denotational oracle over them."""
from .common import E, L, TRUE, FALSE, choice


def skeleton(depth, syms, tag='r', leaves_only=False):
    """a regexp whose every node chooses its operator: union over Zero | One | Symbol(a).. | Iteration | Sum | Concat"""
    import gambatools.regexp as R
    alts = [R.Zero(), R.One()] + [R.Symbol(a) for a in syms]
    if depth > 0:
        alts.append(R.Iteration(skeleton(depth - 1, syms, tag + 'i')))
        alts.append(R.Sum(skeleton(depth - 1, syms, tag + 'l'), skeleton(depth - 1, syms, tag + 'r')))
        alts.append(R.Concat(skeleton(depth - 1, syms, tag + 'L'), skeleton(depth - 1, syms, tag + 'R')))
    d = E.dag
    out = []
    nb = TRUE
    for i, v in enumerate(alts):
        if i == len(alts) - 1:
            out.append((nb, v))
        else:
            s = E.fresh('%s_%d' % (tag, i))
            out.append((d.and_(nb, s), v))
            nb = d.and_(nb, s ^ 1)
    return L.U(out)


def shaped(shape, syms, tag='r'):
    """partly concretised skeleton: an int is a full skeleton of that depth; ('I', s) / ('S', s1, s2) /
    ('C', s1, s2) fix the operator at that node (cube splitting on the operator choice)"""
    import gambatools.regexp as R
    if isinstance(shape, int):
        return skeleton(shape, syms, tag)
    op = shape[0]
    if op == 'I':
        return R.Iteration(shaped(shape[1], syms, tag + 'i'))
    cls = R.Sum if op == 'S' else R.Concat
    return cls(shaped(shape[1], syms, tag + 'l'), shaped(shape[2], syms, tag + 'r'))


class Sem:
    """w in L(value) as a literal, for engine values that denote regular expressions (unions of
    Regexp objects whose fields are again such values). Memoised on object identity."""

    def __init__(self):
        self.memo = {}
        self.keep = []

    def member(self, x, w):
        key = (id(x), w)
        r = self.memo.get(key)
        if r is not None:
            return r
        self.keep.append(x)
        r = self._member(x, w)
        self.memo[key] = r
        return r

    def _member(self, x, w):
        d = E.dag
        if isinstance(x, L.U):
            return d.any_(d.and_(g, self.member(v, w)) for g, v in x.alts)
        n = type(x).__name__
        if n == 'Zero':
            return FALSE
        if n == 'One':
            return TRUE if w == '' else FALSE
        if n == 'Symbol':
            s = x.symbol
            if isinstance(s, L.U):
                return d.any_(g for g, v in s.alts if v == w)
            return TRUE if w == s else FALSE
        if n == 'Sum':
            return d.or_(self.member(x.left, w), self.member(x.right, w))
        if n == 'Concat':
            return d.any_(d.and_(self.member(x.left, w[:k]), self.member(x.right, w[k:])) for k in range(len(w) + 1))
        if n == 'Iteration':
            if w == '':
                return TRUE
            # w in L(r*)  iff  w = u v with u non-empty, u in L(r), v in L(r*)   (induction on |w|)
            return d.any_(d.and_(self.member(x.operand, w[:k]), self.member(x, w[k:])) for k in range(1, len(w) + 1))
        raise TypeError('not a regexp value: %r' % (x,))

    def size(self, x, kind='nodes'):
        """{int: lit}: number of nodes (kind='nodes') or operator weight as in the library's measure
        (kind='ops': star 1, binary 2)"""
        key = (id(x), kind)
        r = self.memo.get(key)
        if r is not None:
            return r
        self.keep.append(x)
        d = E.dag
        if isinstance(x, L.U):
            out = {}
            for g, v in x.alts:
                for k, h in self.size(v, kind).items():
                    out[k] = d.or_(out.get(k, FALSE), d.and_(g, h))
        else:
            n = type(x).__name__
            base = 1 if kind == 'nodes' else 0
            if n in ('Zero', 'One', 'Symbol'):
                out = {base: TRUE}
            elif n == 'Iteration':
                out = {k + 1: h for k, h in self.size(x.operand, kind).items()}
            else:
                inc = 1 if kind == 'nodes' else 2
                out = {}
                for k1, h1 in self.size(x.left, kind).items():
                    for k2, h2 in self.size(x.right, kind).items():
                        k = k1 + k2 + inc
                        out[k] = d.or_(out.get(k, FALSE), d.and_(h1, h2))
        self.memo[key] = out
        return out


def regexp_json(x, mv):
    """decode a (symbolic) regexp value under a model view into the nested-list JSON form"""
    if isinstance(x, L.U):
        for g, v in x.alts:
            if mv(g):
                return regexp_json(v, mv)
        return ['<bottom>']
    n = type(x).__name__
    if n in ('Zero', 'One'):
        return [n]
    if n == 'Symbol':
        s = x.symbol
        if isinstance(s, L.U):
            s = [v for g, v in s.alts if mv(g)][0]
        return [n, s]
    if n == 'Iteration':
        return [n, regexp_json(x.operand, mv)]
    return [n, regexp_json(x.left, mv), regexp_json(x.right, mv)]
