"""C08 -- Chomsky conversion: CNF result with the same language, phase by phase."""
from . import common as c
from . import nat
from .common import E, L, TRUE, FALSE

META = {
    'bounds': {'quick': 'grammar families over 2-3 variables and terminals a, b with 5-6 symbolic candidate rules each (every subset is '
                        'one grammar): epsilon/unit-heavy, long right-hand sides, three variables, useless/cyclic, indirectly '
                        'nullable start, repeated nullable variable in one right-hand side, right-hand sides of length 5, rules '
                        'sharing a right-hand side; each of the five phases alone (copying wrapper), every pipeline prefix '
                        '(cfg_apply_chomsky phase 1..5) and cfg_to_chomsky; language compared on all words of length <= 3 (<= 5 '
                        'for the long-rule family, selected words); a 25/26-variable family for the fresh-name branch',
               'thorough': 'the same families with 8-9 symbolic rules, words <= 4'},
    'outside': 'grammars outside the candidate families; longer words; variable iteration orders are covered only through the '
               'fixed canonical set order (the functions iterate the rule list, and G.V once, in cfg_eliminate_unit_rules_in_place)',
    'oracle': 'derivability least fixpoint (as C07) on the argument grammar and on the grammar read back from the result object; '
              'phase postconditions as direct formulas over the rules of the result',
    'assumptions': ['argument grammar valid', 'terminals are single lower-case letters, variables upper-case names'],
}

FAMILIES = {
    'eps_unit': (['S', 'A'], [], [('S', 'A'), ('S', 'aA'), ('S', 'AA'), ('S', ''), ('A', ''), ('A', 'a'), ('A', 'S'), ('A', 'Ab'), ('A', 'A')]),
    'long': (['S', 'A'], [], [('S', 'aSb'), ('S', 'AbA'), ('A', ''), ('A', 'a'), ('S', 'AAA'), ('S', 'ab'), ('S', 'SS'), ('A', 'A'), ('A', 'bS')]),
    'three_vars': (['S', 'A', 'B'], [('S', 'AB')], [('S', 'b'), ('A', ''), ('A', 'a'), ('A', 'B'), ('B', ''), ('B', 'b'), ('A', 'aA'), ('B', 'A'), ('B', 'SS')]),
    'useless_cyclic': (['S', 'A', 'B'], [('S', 'aS')], [('S', ''), ('S', 'A'), ('A', 'B'), ('B', 'A'), ('B', 'b'), ('A', 'AA'), ('B', 'Bb'), ('S', 'BS')]),
    'indirect_nullable': (['S', 'T', 'U'], [], [('S', 'T'), ('S', 'TU'), ('T', 'U'), ('T', 'a'), ('U', ''), ('U', 'b'), ('S', 'aTb'), ('U', 'UU')]),
    'repeated_nullable': (['S', 'A'], [('S', 'AbA')], [('A', ''), ('A', 'a'), ('S', 'ASA'), ('A', 'AA'), ('S', 'a')]),
    'nullable_by_pair': (['S', 'A', 'B'], [('S', 'aAb'), ('A', 'BB')], [('B', ''), ('B', 'b'), ('A', 'a'), ('S', 'ab'), ('B', 'a'), ('S', 'AA')]),
    'shared_rhs': (['S', 'A', 'B'], [('S', 'AB'), ('A', 'ab'), ('B', 'ab')], [('A', 'B'), ('B', ''), ('S', 'ab'), ('A', 'aAb'), ('B', 'b')]),
    'length5': (['S', 'A'], [('S', 'abAba')], [('A', 'a'), ('A', ''), ('S', 'aAbAa'), ('A', 'bb'), ('S', 'AabbA')]),
}

_LETTERS = 'SABCDEFGHIJKLMNOPQRTUVWXYZ'
for _n in (24, 25, 26):
    FAMILIES['alphabet%d' % _n] = (list(_LETTERS[:_n]), [('S', 'aKbK'), ('K', 'a')], [('K', ''), ('S', 'K'), ('K', 'KK'), ('S', 'bKaKb')])

PHASES = ['cfg_add_new_start_variable', 'cfg_remove_epsilon_rules', 'cfg_eliminate_unit_rules', 'cfg_make_rules_of_length_two',
          'cfg_eliminate_terminals']


def result_entries(G1):
    from .cfg_sym import read_cfg
    return read_cfg(G1)


def post_bad(entries, start_alts, phase, old_vars):
    """literal: the phase postcondition is violated (phase 1..5 cumulative in pipeline position, or single)"""
    d = E.dag
    bad = {}
    # start_alts: {name: guard}
    is_start = lambda X: start_alts.get(X, FALSE)
    bad[1] = d.or_(d.any_(g for X, g in start_alts.items() if X in old_vars),
                   d.any_(d.and_(lit, is_start(s)) for lit, X, rhs, kinds in entries for s in rhs))
    bad[2] = d.any_(d.and_(lit, is_start(X) ^ 1) for lit, X, rhs, kinds in entries if len(rhs) == 0)
    bad[3] = d.any_(lit for lit, X, rhs, kinds in entries if len(rhs) == 1 and kinds[0] == 'Variable')
    bad[4] = d.any_(lit for lit, X, rhs, kinds in entries if len(rhs) > 2)
    cnf_rule_bad = []
    for lit, X, rhs, kinds in entries:
        ok = (len(rhs) == 1 and kinds[0] == 'Terminal') or (len(rhs) == 2 and kinds == ('Variable', 'Variable'))
        if len(rhs) == 0:
            cnf_rule_bad.append(d.and_(lit, is_start(X) ^ 1))
        elif not ok:
            cnf_rule_bad.append(lit)
    bad[5] = d.any_(cnf_rule_bad)
    # phase 5 on its own (arbitrary argument): right-hand sides of length >= 2 consist of variables only
    bad['terminals_isolated'] = d.any_(lit for lit, X, rhs, kinds in entries if len(rhs) >= 2 and any(k != 'Variable' for k in kinds))
    return bad


def grammar_changed(entries, G):
    from .cfg_sym import read_cfg
    d = E.dag
    before = {}
    for bit, X, rhs in entries:
        before[(X, rhs)] = d.or_(before.get((X, rhs), FALSE), bit)
    aft = {}
    for lit, X, rhs, kinds in read_cfg(G):
        aft[(X, rhs)] = d.or_(aft.get((X, rhs), FALSE), lit)
    return d.any_(d.iff(before.get(k, FALSE), aft.get(k, FALSE)) ^ 1 for k in set(before) | set(aft))


def job_phase(job, family, what, maxlen, nsym=None, terminals=('a', 'b'), words=None, phase=None, second_start=False):
    """what: one of PHASES (single phase on an arbitrary grammar), 'cfg_to_chomsky', or 'apply' (pipeline prefix `phase`)"""
    import gambatools.cfg_algorithms as CA
    from .cfg_sym import sym_cfg, entries_json, GrammarSem
    from .oracles import set_eq_bad
    job.functions('cfg_algorithms', [p + '_in_place' for p in PHASES] + PHASES + ['cfg_to_chomsky', 'cfg_nullable_variables',
                                    'expand_nullable_variables', 'cfg_derivable_variables', 'cfg_fresh_variable', 'cfg_put_start_variable_in_front'])
    job.functions('list_utility', ['remove_duplicates', 'remove_if', 'remove_none'])
    d = E.dag
    terminals = list(terminals)
    variables, fixed, symbolic = FAMILIES[family]
    symbolic = symbolic[:nsym] if nsym else symbolic
    start = variables[0]
    cands = [(X, tuple(r)) for X, r in fixed] + [(X, tuple(r)) for X, r in symbolic]
    G, entries = sym_cfg(variables, terminals, cands, start, fixed=[(X, tuple(r)) for X, r in fixed])
    dec = entries_json(entries, variables, terminals, start)
    job.inputs['G'] = G
    job.decoders['G'] = dec
    E.while_bound = 60
    rp = ('phase', {'G': dec, 'what': what, 'phase': phase, 'maxlen': maxlen, 'words': words})
    if what == 'apply':
        from gambatools.notebook_chomsky import cfg_apply_chomsky
        job.functions('notebook_chomsky', ['cfg_apply_chomsky'])
        G1 = job.call(cfg_apply_chomsky, G, phase, 'S', replay=rp)
    else:
        G1 = job.call(getattr(CA, what), G, replay=rp)
    G1b = None
    if second_start and G1 is not None:
        # call history: the same rules with another start variable converted right after the first grammar (hidden state keyed
        # on the rules alone would hand out the first grammar's result)
        import gambatools.cfg as C
        G2 = C.CFG(G.V, G.Sigma, G.R, C.Variable(variables[1]))
        rph = ('phase_history', {'G': dec, 'what': what, 'maxlen': maxlen, 'second_start': variables[1]})
        G1b = job.call(getattr(CA, what), G2, replay=rph)
    job.lifted()
    if G1 is None:
        return job.solve()
    if G1b is not None:
        eb = result_entries(G1b)
        sb = {str(k): v for k, v in c.alt_map(G1b.S).items()}
        vb = list(variables) + [str(v) for v in L._setview(G1b.V).m if str(v) not in variables]
        for w in c.words_upto(terminals, maxlen):
            s0 = GrammarSem(entries, variables, w)
            s1 = GrammarSem([(lit, X, rhs) for lit, X, rhs, kinds in eb], vb, w, fold=True)
            after = d.any_(d.and_(g, s1.derives(X)) for X, g in sb.items())
            job.oblige('after converting the same rules with start variable %s: %s of the grammar with start variable %s preserves the language on %r'
                       % (start, what, variables[1], w), d.iff(s0.derives(variables[1]), after) ^ 1, replay=rph)
    ncfg = c.native('cfg_algorithms')

    def nat_view(mv):
        Gn = nat.mk_cfg(dec(mv), c.native('cfg'))
        if what == 'apply':
            nb = c.NATIVE.get('notebook_chomsky')
            r = nb.cfg_apply_chomsky(Gn, phase, 'S')
        else:
            r = getattr(ncfg, what)(Gn)
        return (sorted(str(x) for x in r.R), sorted(map(str, r.V)), str(r.S))
    job.differential(15, lambda mv: (lambda r: (sorted(str(x) for x in r.R), sorted(map(str, r.V)), str(r.S)))(c.conc(G1, mv)), nat_view, what)
    res_entries = result_entries(G1)
    V1 = L._setview(G1.V)
    start_alts = c.alt_map(G1.S)
    start_alts = {str(k): v for k, v in start_alts.items()}
    new_vars = [str(v) for v in V1.m if str(v) not in variables]
    all_vars = list(variables) + new_vars
    wl = words if words is not None else c.words_upto(terminals, maxlen)
    # validity of the result: every rule uses declared variables / terminals
    vpres = {str(v): g for v, g in V1.m.items()}
    Sig1 = {str(t): g for t, g in L._setview(G1.Sigma).m.items()}
    invalid = FALSE
    for lit, X, rhs, kinds in res_entries:
        invalid = d.or_(invalid, d.and_(lit, vpres.get(X, FALSE) ^ 1))
        for s, kd in zip(rhs, kinds):
            invalid = d.or_(invalid, d.and_(lit, (vpres.get(s, FALSE) if kd == 'Variable' else Sig1.get(s, FALSE)) ^ 1))
    invalid = d.or_(invalid, d.any_(d.and_(g, vpres.get(X, FALSE) ^ 1) for X, g in start_alts.items()))
    job.oblige('result grammar valid (declared variables and terminals, start variable declared)', invalid, replay=rp)
    job.oblige('old variables are still declared', d.any_(vpres.get(v, FALSE) ^ 1 for v in variables), replay=rp)
    # language preserved
    for w in wl:
        s0 = GrammarSem(entries, variables, w)
        s1 = GrammarSem([(lit, X, rhs) for lit, X, rhs, kinds in res_entries], all_vars, w, fold=True)
        after = d.any_(d.and_(g, s1.derives(X)) for X, g in start_alts.items())
        job.oblige('language preserved on %r' % w, d.iff(s0.derives(start), after) ^ 1, replay=rp)
    # postconditions
    pb = post_bad(res_entries, start_alts, phase, set(variables))
    if what == 'apply':
        for ph in range(1, phase + 1):
            job.oblige('postcondition of phase %d holds after cfg_apply_chomsky(G, %d)' % (ph, phase), pb[ph], replay=rp)
        if phase == 5:
            job.oblige('is_chomsky() of the final grammar', E.lit(G1.is_chomsky()) ^ 1, replay=rp)
    elif what == 'cfg_to_chomsky':
        for ph in range(1, 6):
            job.oblige('cfg_to_chomsky: postcondition %d' % ph, pb[ph], replay=rp)
        job.oblige('is_chomsky() of the result', E.lit(G1.is_chomsky()) ^ 1, replay=rp)
    else:
        ph = PHASES.index(what) + 1
        job.oblige('postcondition of %s' % what, pb['terminals_isolated'] if ph == 5 else pb[ph], replay=rp)
    # argument untouched
    job.oblige('argument grammar unchanged', grammar_changed(entries, G), replay=rp)
    job.oblige('argument variable set unchanged', set_eq_bad(G.V, {v: TRUE for v in L._setview(G.V).m if str(v) in variables}), replay=rp)
    job.failures_as_obligations(replay=rp)
    return job.solve()


def jobs(tier):
    J = []

    def add(name, timeout=None, **params):
        J.append({'name': name, 'fn': job_phase, 'params': params, **({'timeout': timeout} if timeout else {})})
    quick = tier == 'quick'
    ns = 6 if quick else 9
    ml = 3 if quick else 4
    tmo = 900 if quick else 3000
    fams = ['eps_unit', 'three_vars', 'useless_cyclic', 'indirect_nullable', 'repeated_nullable', 'shared_rhs']
    for fam in fams:
        add('chomsky_%s' % fam, family=fam, what='cfg_to_chomsky', maxlen=ml, nsym=ns, timeout=tmo)
    add('chomsky_history_eps_unit', family='eps_unit', what='cfg_to_chomsky', maxlen=2, nsym=5, second_start=True, timeout=tmo)
    add('chomsky_history_three_vars', family='three_vars', what='cfg_to_chomsky', maxlen=2, nsym=5, second_start=True, timeout=tmo)
    add('chomsky_nullable_by_pair', family='nullable_by_pair', what='cfg_to_chomsky', maxlen=ml, nsym=5, timeout=tmo)
    add('single_remove_epsilon_rules_by_pair', family='nullable_by_pair', what='cfg_remove_epsilon_rules', maxlen=ml, nsym=5, timeout=tmo)
    add('chomsky_long', family='long', what='cfg_to_chomsky', maxlen=ml, nsym=4 if quick else 6, timeout=tmo)
    add('chomsky_length5', family='length5', what='cfg_to_chomsky', maxlen=0, nsym=3 if quick else 5, timeout=tmo,
        words=['', 'ababa', 'abba', 'abbba', 'aabaa', 'aababaa', 'ababba', 'aabba', 'abbbba', 'aabbbaa'])
    for i, ph in enumerate(PHASES):
        add('single_%s_eps_unit' % ph[4:], family='eps_unit', what=ph, maxlen=ml, nsym=ns, timeout=tmo)
        add('single_%s_three_vars' % ph[4:], family='three_vars', what=ph, maxlen=ml, nsym=ns, timeout=tmo)
    add('single_make_rules_of_length_two_length5', family='length5', what='cfg_make_rules_of_length_two', maxlen=0, nsym=3 if quick else 5,
        timeout=tmo, words=['', 'ababa', 'abba', 'abbba', 'aabaa', 'aababaa', 'ababba'])
    add('single_remove_epsilon_rules_repeated', family='repeated_nullable', what='cfg_remove_epsilon_rules', maxlen=ml, nsym=ns, timeout=tmo)
    for n in (24, 25, 26):
        add('chomsky_alphabet%d' % n, family='alphabet%d' % n, what='cfg_to_chomsky', maxlen=0, nsym=3 if quick else 4, timeout=tmo,
            words=['', 'a', 'ab', 'aab', 'aaba', 'aaaba', 'aabaa', 'abab', 'baab', 'bab'])
        add('single_add_new_start_variable_alphabet%d' % n, family='alphabet%d' % n, what='cfg_add_new_start_variable', maxlen=0, nsym=2,
            timeout=tmo, words=['', 'aaba', 'ab'])
        add('single_make_rules_of_length_two_alphabet%d' % n, family='alphabet%d' % n, what='cfg_make_rules_of_length_two', maxlen=0, nsym=2,
            timeout=tmo, words=['', 'aaba', 'ab', 'aab'])
    for ph in range(1, 6):
        add('apply_phase%d_indirect_nullable' % ph, family='indirect_nullable', what='apply', phase=ph, maxlen=ml, nsym=ns, timeout=tmo)
        add('apply_phase%d_shared_rhs' % ph, family='shared_rhs', what='apply', phase=ph, maxlen=ml, nsym=ns, timeout=tmo)
    return J


EXTRA_NATIVE = ('notebook_chomsky',)


# ------------------------------------------------------------------ native replay
def _lang(js, words):
    return {w for w in words if nat.ref_cfg_accepts(js, w)}


def _replay_phase(rp):
    import gambatools.cfg_algorithms as CA
    js = rp['G']
    G = nat.mk_cfg(js)
    before = nat.cfg_json_of(G)
    what = rp['what']
    try:
        if what == 'apply':
            from gambatools.notebook_chomsky import cfg_apply_chomsky
            G1 = cfg_apply_chomsky(G, rp['phase'], 'S')
        else:
            G1 = getattr(CA, what)(G)
    except Exception as e:
        return True, {'library raised': repr(e)}
    problems = []
    if nat.cfg_json_of(G) != before:
        problems.append('argument modified')
    j1 = nat.cfg_json_of(G1)
    words = rp.get('words') or nat.words_upto(js['Sigma'], rp['maxlen'])
    try:
        if _lang(js, words) != _lang(j1, words):
            problems.append('language differs on %r' % sorted(_lang(js, words) ^ _lang(j1, words), key=lambda w: (len(w), w))[:3])
    except Exception as e:
        problems.append('result not a grammar: %r' % e)
    S1 = j1['S']
    V1 = set(j1['V'])
    for X, rhs in j1['R']:
        if X not in V1 or any((s not in V1) if nat._is_var(s) else (s not in set(j1['Sigma'])) for s in rhs):
            problems.append('invalid rule %s -> %s' % (X, rhs))
    if S1 not in V1 or None in V1 or 'None' in V1:
        problems.append('start variable %r / variables invalid' % S1)
    if not set(js['V']) <= V1:
        problems.append('old variables dropped')
    phases = {'cfg_to_chomsky': [1, 2, 3, 4, 5], 'apply': list(range(1, (rp.get('phase') or 0) + 1))}.get(what) or [PHASES.index(what) + 1]
    for ph in phases:
        if ph == 1 and (S1 in js['V'] or any(S1 in rhs for _, rhs in j1['R'])):
            problems.append('phase 1: start variable not new / occurs on a right-hand side')
        if ph == 2 and any(not rhs and X != S1 for X, rhs in j1['R']):
            problems.append('phase 2: epsilon rule left')
        if ph == 3 and any(len(rhs) == 1 and nat._is_var(rhs[0]) for X, rhs in j1['R']):
            problems.append('phase 3: unit rule left')
        if ph == 4 and any(len(rhs) > 2 for X, rhs in j1['R']):
            problems.append('phase 4: long rule left')
        if ph == 5 and what == 'cfg_eliminate_terminals':
            if any(len(rhs) >= 2 and not all(nat._is_var(s) for s in rhs) for X, rhs in j1['R']):
                problems.append('terminal left in a long right-hand side')
        elif ph == 5:
            for X, rhs in j1['R']:
                ok = (not rhs and X == S1) or (len(rhs) == 1 and not nat._is_var(rhs[0])) or (len(rhs) == 2 and all(nat._is_var(s) for s in rhs))
                if not ok:
                    problems.append('phase 5: rule %s -> %s not CNF' % (X, rhs))
            if what != 'cfg_eliminate_terminals' and not G1.is_chomsky():
                problems.append('is_chomsky() False')
    return bool(problems), {'grammar': str(nat.mk_cfg(js)), 'result': str(G1)[:300], 'problems': problems[:4]}


def _replay_phase_history(rp):
    import gambatools.cfg_algorithms as CA
    js = rp['G']
    js2 = dict(js, S=rp['second_start'])
    words = nat.words_upto(js['Sigma'], rp['maxlen'])
    problems = []
    for j in (js, js2, js):
        try:
            j1 = nat.cfg_json_of(getattr(CA, rp['what'])(nat.mk_cfg(j)))
            if _lang(j, words) != _lang(j1, words):
                problems.append('start %s (after earlier calls): language differs on %r' % (j['S'], sorted(_lang(j, words) ^ _lang(j1, words), key=lambda w: (len(w), w))[:3]))
        except Exception as e:
            problems.append('start %s: %r' % (j['S'], e))
    return bool(problems), {'problems': problems}


REPLAY = {'phase_history': _replay_phase_history, 'phase': _replay_phase}
