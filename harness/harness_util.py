"""small helpers shared by harnesses"""
from .common import E, TRUE, FALSE


def count_map(lits):
    """{k: lit 'exactly k of lits are true'}"""
    d = E.dag
    cur = [TRUE]
    for p in lits:
        nxt = [FALSE] * (len(cur) + 1)
        for k, cc in enumerate(cur):
            nxt[k] = d.or_(nxt[k], d.and_(cc, p ^ 1))
            nxt[k + 1] = d.or_(nxt[k + 1], d.and_(cc, p))
        cur = nxt
    return {k: g for k, g in enumerate(cur) if g != FALSE}
