"""C13 -- the library's own answers pass its checkers."""
import os

from . import common as c
from . import nat
from .common import E, L, TRUE, FALSE
from .C12 import run_checker, said, said_ok, messages

META = {
    'bounds': {'quick': 'reference DFAs: all with 2 states over {a, b} and 3 states over {a} (product exercises: all pairs of 2-state DFAs over '
                        '{a}, and over {a, b} with length bound 3); reference NFAs: all with 2 states over {a} / {a, b} with epsilon '
                        'moves; minimal-DFA exercises (dfa_quotient and dfa_hopfcroft): accepting set symbolic over five concrete '
                        'transition structures; DFA->regexp: 2 states, both elimination orders; word-list exercise: 2 states over {a}, '
                        'length 3; grammar exercises (CYK table, derivations, Chomsky phases): candidate-rule families of C07 / C08',
               'thorough': 'one notch up'},
    'outside': 'the shipped notebooks themselves (a concrete smoke run, not part of the solver claim); PDA / TM exercises; larger references',
    'oracle': 'none needed: the obligation is that the checker prints OK and nothing else for the answer produced by '
              'notebooks/make_notebook.py:apply_command (lifted, file reads stubbed by the symbolic reference text)',
    'assumptions': ['reference objects valid', 'grammars non-degenerate (every variable derives a non-empty word), as the property states'],
}

EXTRA_NATIVE = ('regexp_parser', 'regexp_simple_parser')

FILES = {}


def load_make_notebook():
    """lift notebooks/make_notebook.py (it is not part of the package, so the import hook does not see it) and stub its file reads"""
    from symlift import rewrite, engine
    path = os.path.join(c.REPO, 'notebooks', 'make_notebook.py')
    src = open(path).read()
    # apply_command is a 20-way if/elif dispatch on a CONCRETE command string: the module is executed as it is (its
    # predicated form exceeds CPython's limit of nested blocks); everything it calls is imported from gambatools and
    # therefore lifted. Only the 'generate' branch computes on symbolic data itself (a list comprehension over the word
    # set) - that branch is lifted separately from its own source lines.
    ns = {'__name__': 'make_notebook_lifted', '__file__': path}
    exec(compile(src, path, 'exec'), ns)
    import ast
    tree = ast.parse(src)
    fn = [n for n in tree.body if isinstance(n, ast.FunctionDef) and n.name == 'apply_command'][0]
    # branches that compute on symbolic data themselves (not only through library calls) are lifted separately from their
    # own source lines, one function apply_<name>(command, arguments) per branch
    wanted = {'generate': 'apply_generate', 'cfg_cyk_matrix': 'apply_cfg_cyk_matrix', 'cfg_leftmost_derivation': 'apply_cfg_derivation'}
    node = fn.body[0]
    funcs = []
    while isinstance(node, ast.If):
        consts = [x.value for x in ast.walk(node.test) if isinstance(x, ast.Constant) and isinstance(x.value, str)]
        for k, name in wanted.items():
            if k in consts:
                funcs.append(ast.FunctionDef(name=name, args=fn.args, body=node.body, decorator_list=[], returns=None, type_params=[]))
        node = node.orelse[0] if node.orelse else None
    if funcs:
        mod = ast.Module(body=funcs, type_ignores=[])
        ast.fix_missing_locations(mod)
        lifted = rewrite.Lifter().visit(mod)
        ast.fix_missing_locations(lifted)
        ns['_L_'] = engine
        exec(compile(lifted, path, 'exec'), ns)

    def read_stub(filename):
        return FILES[filename]
    ns['read_utf8_text'] = read_stub
    return ns


def only_ok_bad(ev):
    """literal: the checker did not print exactly OK"""
    d = E.dag
    return d.or_(said_ok(ev) ^ 1, said(ev, lambda t: t != 'OK'))


def printed_json(ev):
    return lambda mv: [t for t, g in messages(ev).items() if mv(g)]


def job_dfa_exercise(job, what, n, k, length=None, perm=None, fold=False):
    import gambatools.notebook_dfa as ND
    import gambatools.notebook as NB
    from gambatools.dfa_algorithms import print_dfa
    from .oracles import DfaView
    MN = load_make_notebook()
    job.functions('notebook_dfa', ['check_dfa_complement', 'check_dfa_union', 'check_dfa_intersection', 'check_dfa_symmetric_difference',
                                   'check_dfa_reverse', 'check_product_automaton', 'extract_states'])
    job.functions('notebook', ['check_dfa2regexp', 'check_language_from_words', 'print_feedback'])
    job.functions('dfa_algorithms', ['dfa_complement', 'dfa_product', 'dfa_reverse', 'print_dfa', 'parse_dfa'])
    d = E.dag
    # no exact truth tables in the encoder (except for the regexp exercise, which does not lift without them): every
    # feasibility question and the final obligation go to z3
    c.set_exhaustive(14, fold=(fold or what == 'dfa2regexp'))
    D1, names, syms = c.sym_dfa(n, k, tag='R')
    v1 = DfaView(D1, names, syms)
    job.inputs['reference'] = D1
    job.decoders['reference'] = v1.to_json
    FILES['ref.dfa'] = print_dfa(D1)
    rpd = {'what': what, 'reference': v1.to_json, 'length': length}
    if what in ('dfa_union', 'dfa_intersection', 'dfa_symmetric_difference'):
        D2, names2, _ = c.sym_dfa(n, k, tag='S', names=['p%d' % i for i in range(n)])
        v2 = DfaView(D2, names2, syms)
        job.inputs['reference2'] = D2
        job.decoders['reference2'] = v2.to_json
        FILES['ref2.dfa'] = print_dfa(D2)
        rpd['reference2'] = v2.to_json
    rp = ('dfa_exercise', rpd)
    E.while_bound = 4 * n * max(k, 1) + 12
    if what == 'dfa2regexp':
        L.ORDER['mode'] = 'symbolic'
        L.ORDER['filter'] = lambda elems: not any(str(e) in ('start', 'accept') for e in elems)
        L.ORDER['concrete_perm'] = perm or 0
    args = ['ref.dfa', 'ref2.dfa'] if 'reference2' in rpd else ['ref.dfa']
    if what == 'generate':
        args = ['ref.dfa', str(length)]
    if what == 'generate':
        answer = job.call(MN['apply_generate'], what, args, replay=rp)
    else:
        answer = job.call(MN['apply_command'], what, args, replay=rp)
    if answer is None:
        job.lifted()
        return job.solve()
    ref = FILES['ref.dfa']
    kw = {} if length is None else {'length': length}
    if what == 'dfa_complement':
        ev = run_checker(ND.check_dfa_complement, answer, ref)
    elif what in ('dfa_union', 'dfa_intersection', 'dfa_symmetric_difference'):
        ev = run_checker(getattr(ND, 'check_' + what), answer, ref, FILES['ref2.dfa'], **kw)
    elif what == 'dfa_reverse':
        ev = run_checker(ND.check_dfa_reverse, ref, answer, **kw)
    elif what == 'dfa2regexp':
        ev = run_checker(NB.check_dfa2regexp, ref, answer, **kw)
    elif what == 'generate':
        ev = run_checker(NB.check_dfa_language_from_words, ref, answer, length, 0)
    job.lifted()
    job.inputs['printed'] = None
    job.decoders['printed'] = printed_json(ev)
    job.oblige('the checker prints OK (and nothing else) for the answer generated by apply_command(%r)' % what, only_ok_bad(ev), replay=rp)
    job.failures_as_obligations(replay=rp)
    job.sample_replays = 3
    return job.solve()


def job_nfa2dfa(job, n, k, eps='_'):
    import gambatools.notebook_nfa2dfa as NN
    from gambatools.nfa_algorithms import print_nfa
    from .oracles import NfaView
    MN = load_make_notebook()
    job.functions('notebook_nfa2dfa', ['check_nfa2dfa', 'check_nfa_to_dfa_answer'])
    job.functions('nfa_algorithms', ['nfa_to_dfa', 'print_nfa', 'parse_nfa'])
    N, names, syms = c.sym_nfa(n, k, eps=eps, tag='R', partial=False)
    vn = NfaView(N, names, syms)
    job.inputs['reference'] = N
    job.decoders['reference'] = vn.to_json
    FILES['ref.nfa'] = print_nfa(N)
    rp = ('nfa2dfa', {'reference': vn.to_json})
    E.while_bound = 2 ** n + 4
    answer = job.call(MN['apply_command'], 'nfa2dfa', ['ref.nfa'], replay=rp)
    if answer is None:
        job.lifted()
        return job.solve()
    ev = run_checker(NN.check_nfa2dfa, FILES['ref.nfa'], answer)
    job.lifted()
    job.inputs['printed'] = None
    job.decoders['printed'] = printed_json(ev)
    job.oblige("check_nfa2dfa prints OK (and nothing else) for the DFA generated by apply_command('nfa2dfa')", only_ok_bad(ev), replay=rp)
    job.failures_as_obligations(replay=rp)
    job.sample_replays = 3
    return job.solve()


def job_minimal(job, ref, which, concrete=False):
    """minimal-DFA exercises: transition structure concrete (cube), accepting set symbolic"""
    import gambatools.notebook_dfa as ND
    from gambatools.dfa import DFA
    from gambatools.dfa_algorithms import print_dfa
    from .C12 import MINIMAL_REFS
    MN = load_make_notebook()
    job.functions('notebook_dfa', ['check_dfa_minimal'])
    job.functions('dfa_algorithms', ['dfa_quotient', 'dfa_hopfcroft'])
    Dj = MINIMAL_REFS[ref]
    names, syms = Dj['Q'], Dj['Sigma']
    delta = L.GDict()
    for p, a, q in Dj['delta']:
        delta.m[(p, a)] = [TRUE, q]
    F = L.GSet()
    fb = {}
    for q in names:
        fb[q] = E.fresh('f_%s' % q) if not concrete else (TRUE if q in Dj['F'] else FALSE)
        F.m[q] = fb[q]
    if concrete:
        job.result['notes'].append('concrete reference (no solver variables): a plain run of generator + printer + checker')
    D = DFA(L.GSet(names), L.GSet(syms), delta, Dj['q0'], F)
    dec = lambda mv: dict(Dj, F=[q for q in names if mv(fb[q])])
    job.inputs['reference'] = None
    job.decoders['reference'] = dec
    FILES['ref.dfa'] = print_dfa(D)
    rp = ('minimal', {'reference': dec, 'which': which})
    E.while_bound = 4 * len(names) * len(syms) + 12
    answer = job.call(MN['apply_command'], which, ['ref.dfa'], replay=rp)
    if answer is None:
        job.lifted()
        return job.solve()
    ev = run_checker(ND.check_dfa_minimal, FILES['ref.dfa'], answer, 4)
    job.lifted()
    job.inputs['printed'] = None
    job.decoders['printed'] = printed_json(ev)
    job.oblige('check_dfa_minimal prints OK (and nothing else) for the DFA generated by apply_command(%r)' % which, only_ok_bad(ev), replay=rp)
    job.failures_as_obligations(replay=rp)
    job.sample_replays = 3
    return job.solve()


def nondegenerate(entries, variables):
    """literal: every variable derives a non-empty word (fixpoint over the candidate rules)"""
    from .cfg_sym import is_var
    d = E.dag
    P = {v: FALSE for v in variables}      # derives some word
    N = {v: FALSE for v in variables}      # derives some non-empty word
    for _ in range(len(variables) + 1):
        P2, N2 = dict(P), dict(N)
        for bit, X, rhs in entries:
            prod = d.all_(P[s] if is_var(s) else TRUE for s in rhs)
            nonempty = d.any_((N[s] if is_var(s) else TRUE) for s in rhs)
            P2[X] = d.or_(P2[X], d.and_(bit, prod))
            N2[X] = d.or_(N2[X], d.all_([bit, prod, nonempty]))
        P, N = P2, N2
    return d.all_(N[v] for v in variables)


def job_chomsky(job, family, phase, nsym=6, length=3, eps=None):
    """Chomsky exercise of the notebooks: answer = cfg_print_simple(cfg_apply_chomsky(G, phase, start_variable)), checked by
    cfg_check_chomsky against the printed reference grammar"""
    import gambatools.notebook_chomsky as NC
    from gambatools.cfg_algorithms import cfg_print_simple
    from .cfg_sym import sym_cfg, entries_json
    from .C08 import FAMILIES
    MN = load_make_notebook()
    job.functions('notebook_chomsky', ['cfg_check_chomsky', 'cfg_apply_chomsky', 'check_cfg_has_start_variable', 'check_cfg_has_no_epsilon_rules',
                                       'check_cfg_has_no_unit_productions', 'check_cfg_has_right_hand_sides_of_length_at_most_two', 'check_cfg_is_chomsky'])
    job.functions('cfg_algorithms', ['cfg_print_simple', 'parse_simple_cfg', 'cfg_to_chomsky', 'cfg_words_up_to_n'])
    d = E.dag
    c.set_exhaustive(12)
    terminals = ['a', 'b']
    variables, fixed, symbolic = FAMILIES[family]
    symbolic = symbolic[:nsym]
    cands = [(X, tuple(r)) for X, r in fixed] + [(X, tuple(r)) for X, r in symbolic]
    G, entries = sym_cfg(variables, terminals, cands, variables[0], fixed=[(X, tuple(r)) for X, r in fixed])
    dec = entries_json(entries, variables, terminals, variables[0])
    job.inputs['G'] = G
    job.decoders['G'] = dec
    # printable in the simple format (C16): every variable has a rule, the first rule belongs to the start variable, every
    # terminal occurs; and non-degenerate as the property states
    has_rule = {v: d.any_(bit for bit, X, rhs in entries if X == v) for v in variables}
    uses = {t: d.any_(bit for bit, X, rhs in entries if t in rhs) for t in terminals}
    first_is_start, seen = TRUE, FALSE
    for bit, X, rhs in entries:
        if X != variables[0]:
            first_is_start = d.and_(first_is_start, d.or_(bit ^ 1, seen))
        else:
            seen = d.or_(seen, bit)
    E.assumptions.append(d.all_(list(has_rule.values()) + list(uses.values()) + [first_is_start, nondegenerate(entries, variables)]))
    E.while_bound = 60
    if eps is None:
        FILES['ref.cfg'] = cfg_print_simple(G)
    else:
        # a grammar file that declares its own epsilon symbol (one rule per line, written by the harness)
        FILES['ref.cfg'] = L.GStr([(TRUE, 'epsilon = %s\n' % eps)] + [(bit, '%s -> %s\n' % (X, ''.join(rhs) or eps)) for bit, X, rhs in entries])
    rp = ('chomsky', {'G': dec, 'phase': phase, 'length': length, 'eps': eps})
    answer = job.call(MN['apply_command'], 'chomsky%d' % phase, ['ref.cfg', 'Z'], replay=rp)
    if answer is None:
        job.lifted()
        return job.solve()
    ev = run_checker(NC.cfg_check_chomsky, FILES['ref.cfg'], answer, phase, 'Z', length)
    job.lifted()
    job.inputs['printed'] = None
    job.decoders['printed'] = printed_json(ev)
    job.oblige("cfg_check_chomsky prints OK (and nothing else) for the grammar generated by apply_command('chomsky%d')" % phase, only_ok_bad(ev), replay=rp)
    job.must_reach('some grammar of the family is printable and non-degenerate', TRUE)
    job.failures_as_obligations(replay=rp)
    job.sample_replays = 3
    return job.solve()


def job_cfg_exercise(job, what, word, nsym=5):
    """CYK-table and derivation exercises: answer = apply_command('cfg_cyk_matrix' | 'cfg_leftmost_derivation' | 'cfg_rightmost_derivation'),
    checked by check_cyk_matrix / check_cfg_derivation; CNF grammar with symbolic rules; derivations only for generated words"""
    import gambatools.notebook_cfg as NC
    from .cfg_sym import GrammarSem
    # Chomsky normal form in the library's sense (CFG.is_chomsky): the start variable does not occur on a right-hand side -
    # for other grammars apply_command declines to generate the exercise (RuntimeError / warning), so they are outside the claim
    CYK_RULES = [('S', 'AB'), ('A', 'a'), ('B', 'b'), ('S', 'BA'), ('A', 'b'), ('B', 'a'), ('S', 'a'), ('A', 'AA'), ('B', 'AB')]
    CYK_FIXED = 3
    MN = load_make_notebook()
    job.functions('notebook_cfg', ['check_cyk_matrix', 'check_cfg_derivation', 'cfg_has_derivation', 'cfg_apply_rule'])
    job.functions('cfg_algorithms', ['cfg_cyk_matrix', 'cfg_print_cyk_matrix', 'cfg_derive_word', 'parse_simple_cfg'])
    d = E.dag
    c.set_exhaustive(12)
    E.while_bound = 60
    variables = ['S', 'A', 'B']
    rules = CYK_RULES[:CYK_FIXED + nsym]
    bits = [TRUE] * CYK_FIXED + [E.fresh('rule_%s_%s' % (X, r)) for X, r in rules[CYK_FIXED:]]
    entries = [(b, X, tuple(r)) for b, (X, r) in zip(bits, rules)]
    FILES['ref.cfg'] = L.GStr([(b, '%s -> %s\n' % (X, r)) for b, (X, r) in zip(bits, rules)])
    dec = lambda mv: {'V': variables, 'Sigma': ['a', 'b'], 'S': 'S', 'R': [[X, list(r)] for b, (X, r) in zip(bits, rules) if mv(b)]}
    job.inputs['G'] = None
    job.decoders['G'] = dec
    rp = ('cfg_exercise', {'G': dec, 'what': what, 'word': word})
    if what == 'cyk':
        answer = job.call(MN['apply_cfg_cyk_matrix'], 'cfg_cyk_matrix', ['ref.cfg', word], replay=rp)
    else:
        # the exercise is only generated for words of the language
        E.assumptions.append(GrammarSem(entries, variables, word).derives('S'))
        answer = job.call(MN['apply_cfg_derivation'], 'cfg_%s_derivation' % what, ['ref.cfg', word], replay=rp)
    if answer is None:
        job.lifted()
        return job.solve()
    if what == 'cyk':
        ev = run_checker(NC.check_cyk_matrix, FILES['ref.cfg'], word, answer)
    else:
        ev = run_checker(NC.check_cfg_derivation, FILES['ref.cfg'], answer, word, what)
    job.lifted()
    job.inputs['printed'] = None
    job.decoders['printed'] = printed_json(ev)
    job.oblige('the checker prints OK (and nothing else) for the answer generated by apply_command (%s, word %r)' % (what, word), only_ok_bad(ev), replay=rp)
    job.must_reach('some grammar of the family generates the word', TRUE)
    job.failures_as_obligations(replay=rp)
    job.sample_replays = 3
    return job.solve()


def jobs(tier):
    J = []

    def add(name, fn, timeout=None, **params):
        J.append({'name': name, 'fn': fn, 'params': params, **({'timeout': timeout} if timeout else {})})
    q = tier == 'quick'
    tmo = 600 if q else 3000
    add('complement_n2_k2', job_dfa_exercise, what='dfa_complement', n=2, k=2, timeout=tmo)
    add('complement_n3_k1', job_dfa_exercise, what='dfa_complement', n=3, k=1, timeout=tmo)
    for op in ('dfa_union', 'dfa_intersection', 'dfa_symmetric_difference'):
        add('%s_n2_k1_default_length' % op, job_dfa_exercise, what=op, n=2, k=1, timeout=tmo)
        add('%s_n2_k2_L3' % op, job_dfa_exercise, what=op, n=2, k=2, length=3, timeout=tmo)
    add('reverse_n2_k2', job_dfa_exercise, what='dfa_reverse', n=2, k=2, length=3, fold=True, timeout=tmo)
    add('reverse_n2_k1', job_dfa_exercise, what='dfa_reverse', n=2, k=1, length=4, timeout=tmo)
    add('reverse_n3_k1', job_dfa_exercise, what='dfa_reverse', n=3, k=1, length=5, fold=True, timeout=tmo)
    for p in (0, 1):
        add('dfa2regexp_n2_k2_p%d' % p, job_dfa_exercise, what='dfa2regexp', n=2, k=2, length=3, perm=p, timeout=tmo)
        add('dfa2regexp_n2_k1_p%d' % p, job_dfa_exercise, what='dfa2regexp', n=2, k=1, length=5, perm=p, timeout=tmo)
    add('generate_n2_k1', job_dfa_exercise, what='generate', n=2, k=1, length=3, timeout=tmo)
    add('nfa2dfa_n2_k1', job_nfa2dfa, n=2, k=1, timeout=tmo)
    add('nfa2dfa_n2_k1_eps_unicode', job_nfa2dfa, n=2, k=1, eps='ε', timeout=tmo)
    if not q:
        # (2 states over two symbols: 51+ input bits plus one choice variable per pop, did not finish in 6 CPU-minutes)
        add('nfa2dfa_n3_k1', job_nfa2dfa, n=3, k=1, timeout=900)
    for fam in ('indirect_nullable', 'three_vars', 'repeated_nullable', 'nullable_by_pair') + (() if q else ('useless_cyclic',)):
        for phase in (2, 5) if q else (1, 2, 3, 4, 5):
            add('chomsky%d_%s' % (phase, fam), job_chomsky, family=fam, phase=phase, timeout=tmo)
    add('chomsky1_repeated_nullable_eps_e', job_chomsky, family='repeated_nullable', phase=1, eps='e', timeout=tmo)
    add('chomsky2_indirect_nullable_eps_e', job_chomsky, family='indirect_nullable', phase=2, eps='e', timeout=tmo)
    for w in ('ab', 'ba', 'aab'):
        add('cyk_table_%s' % w, job_cfg_exercise, what='cyk', word=w, timeout=tmo)
        for dt in ('leftmost', 'rightmost'):
            add('derivation_%s_%s' % (dt, w), job_cfg_exercise, what=dt, word=w, timeout=tmo)
    from .C12 import MINIMAL_REFS
    for ref in MINIMAL_REFS:
        for which in ('dfa_minimize', 'dfa_hopfcroft'):
            symbolic_F = which == 'dfa_hopfcroft' and ref in ('unreachable_state', 'already_minimal')
            add('minimal_%s_%s' % (which, ref), job_minimal, ref=ref, which=which, concrete=not symbolic_F, timeout=tmo)
    return J


# ------------------------------------------------------------------ native replay: the real make_notebook.apply_command with temp files
def _apply_native(command, texts, extra_args=()):
    import importlib.util, tempfile, sys
    spec = importlib.util.spec_from_file_location('make_notebook_native', os.path.join(os.environ.get('GAMBATOOLS_REPO', '/repo'), 'notebooks', 'make_notebook.py'))
    mod = importlib.util.module_from_spec(spec)
    spec.loader.exec_module(mod)
    files = []
    tmp = tempfile.mkdtemp(dir=os.environ.get('VERIF_SCRATCH') or os.path.join(os.path.dirname(os.path.dirname(os.path.abspath(__file__))), '.scratch'))
    for i, (ext, text) in enumerate(texts):
        p = os.path.join(tmp, 'ref%d.%s' % (i, ext))
        with open(p, 'w', encoding='utf-8') as f:
            f.write(text)
        files.append(p)
    try:
        return mod.apply_command(command, files + list(extra_args))
    finally:
        for p in files:
            os.unlink(p)
        os.rmdir(tmp)


def _replay_dfa_exercise(rp):
    import gambatools.notebook_dfa as ND
    import gambatools.notebook as NB
    from gambatools.dfa_algorithms import print_dfa
    from .C12 import _capture
    what = rp['what']
    ref = print_dfa(nat.mk_dfa(rp['reference']))
    texts = [('dfa', ref)]
    if 'reference2' in rp:
        ref2 = print_dfa(nat.mk_dfa(rp['reference2']))
        texts.append(('dfa', ref2))
    kw = [] if rp.get('length') is None else [rp['length']]
    try:
        answer = _apply_native(what, texts, [str(rp['length'])] if what == 'generate' else [])
        if what == 'dfa_complement':
            lines = _capture(ND.check_dfa_complement, answer, ref)
        elif what in ('dfa_union', 'dfa_intersection', 'dfa_symmetric_difference'):
            lines = _capture(getattr(ND, 'check_' + what), answer, ref, ref2, *kw)
        elif what == 'dfa_reverse':
            lines = _capture(ND.check_dfa_reverse, ref, answer, *kw)
        elif what == 'dfa2regexp':
            lines = _capture(NB.check_dfa2regexp, ref, answer, *kw)
        else:
            lines = _capture(NB.check_dfa_language_from_words, ref, answer, rp['length'], 0)
    except Exception as e:
        return True, {'raised': repr(e)}
    return lines != ['OK'], {'generated answer': answer, 'printed': lines}


def _replay_nfa2dfa(rp):
    import gambatools.notebook_nfa2dfa as NN
    from gambatools.nfa_algorithms import print_nfa
    from .C12 import _capture
    ref = print_nfa(nat.mk_nfa(rp['reference']))
    try:
        answer = _apply_native('nfa2dfa', [('nfa', ref)])
        lines = _capture(NN.check_nfa2dfa, ref, answer)
    except Exception as e:
        return True, {'raised': repr(e)}
    return lines != ['OK'], {'generated answer': answer, 'printed': lines}


def _replay_minimal(rp):
    import gambatools.notebook_dfa as ND
    from gambatools.dfa_algorithms import print_dfa
    from .C12 import _capture
    ref = print_dfa(nat.mk_dfa(rp['reference']))
    try:
        answer = _apply_native(rp['which'], [('dfa', ref)])
        lines = _capture(ND.check_dfa_minimal, ref, answer, 4)
    except Exception as e:
        return True, {'raised': repr(e)}
    return lines != ['OK'], {'generated answer': answer, 'printed': lines}


def _replay_chomsky(rp):
    import gambatools.notebook_chomsky as NC
    from gambatools.cfg_algorithms import cfg_print_simple
    from .C12 import _capture
    ref = cfg_print_simple(nat.mk_cfg(rp['G']))
    if rp.get('eps'):
        ref = 'epsilon = %s\n' % rp['eps'] + ''.join('%s -> %s\n' % (X, ''.join(rhs) or rp['eps']) for X, rhs in rp['G']['R'])
    try:
        answer = _apply_native('chomsky%d' % rp['phase'], [('cfg', ref)], ['Z'])
        lines = _capture(NC.cfg_check_chomsky, ref, answer, rp['phase'], 'Z', rp['length'])
    except Exception as e:
        return True, {'raised': repr(e)}
    return lines != ['OK'], {'reference': ref, 'generated answer': answer, 'printed': lines}


def _replay_cfg_exercise(rp):
    import gambatools.notebook_cfg as NC
    from .C12 import _capture
    ref = ''.join('%s -> %s\n' % (X, ''.join(rhs)) for X, rhs in rp['G']['R'])
    what, word = rp['what'], rp['word']
    try:
        if what == 'cyk':
            answer = _apply_native('cfg_cyk_matrix', [('cfg', ref)], [word])
            # display(Markdown(...)) falls back to printing the object's repr outside a notebook: not checker output
            lines = [l for l in _capture(NC.check_cyk_matrix, ref, word, answer) if not l.startswith('<IPython')]
        else:
            if not nat.ref_cfg_accepts(rp['G'], word):
                return False, {'skipped': 'word not in the language'}
            answer = _apply_native('cfg_%s_derivation' % what, [('cfg', ref)], [word])
            lines = _capture(NC.check_cfg_derivation, ref, answer, word, what)
    except Exception as e:
        return True, {'raised': repr(e)}
    return lines != ['OK'], {'reference': ref, 'generated answer': answer, 'printed': lines}


REPLAY = {'cfg_exercise': _replay_cfg_exercise, 'chomsky': _replay_chomsky, 'dfa_exercise': _replay_dfa_exercise, 'nfa2dfa': _replay_nfa2dfa, 'minimal': _replay_minimal}
