"""C06 -- regexp-to-NFA and DFA-to-regexp conversions preserve the language."""
from . import common as c
from . import nat
from .common import E, L, TRUE, FALSE

META = {
    'bounds': {'quick': 'regexp->NFA: all regexp trees of depth <= 2 over {a, b} plus selected depth-3 shapes ((r*.s*)*, star of depth 2, '
                        'sums / concatenations of stars), words of length <= 3 (<= 4 for the small shapes); DFA->regexp: all DFAs with '
                        'n <= 2 over {a, b}, n = 2 over {0, 1} and over {a, b, c}, n = 3 over {a}, every state-elimination order '
                        '(symbolic permutation of the set being iterated), words <= 4',
               'thorough': 'depth 3 skeleton (root cubes), DFAs with 3 states over {a, b}, words <= 5'},
    'outside': 'all word lengths: for regular expressions no small exact bound exists, so language equality is claimed only up to '
               'the stated word length; larger trees / automata',
    'oracle': 'denotational regexp semantics (as C05) and reachability-matrix NFA / one-hot DFA semantics (as C01); the NFA built '
              'by the generator is read through a merged field view of the guarded union of result objects',
    'assumptions': ['Symbol nodes carry single characters', "DFA state names differ from 'start' and 'accept' (documented assert)"],
}


def job_regexp_to_nfa(job, depth, maxlen, syms='ab', shape=None):
    from gambatools.regexp_algorithms import regexp_to_nfa
    from .regexp_sym import skeleton, shaped, Sem, regexp_json
    from .oracles import NfaView
    from .C05 import _tup
    job.functions('regexp_algorithms', ['regexp_to_nfa', 'RegexpToNFAGenerator'])
    job.functions('nfa_algorithms', ['nfa_union', 'nfa_concatenation', 'nfa_repetition'])
    d = E.dag
    syms = list(syms)
    r = shaped(_tup(shape), syms) if shape is not None else skeleton(depth, syms)
    dec = lambda mv: regexp_json(r, mv)
    job.inputs['r'] = r
    job.decoders['r'] = dec
    rp = ('r2n', {'r': dec, 'maxlen': maxlen, 'syms': syms})
    Nr = job.call(regexp_to_nfa, r, replay=rp)
    job.lifted()
    if Nr is None:
        return job.solve()
    view = NfaView(Nr, None, syms)
    job.result['notes'].append('result NFA: %d candidate states' % len(view.names))
    sem = Sem()
    for w in c.words_upto(syms, maxlen):
        job.oblige('regexp_to_nfa(r) accepts %r iff r denotes it' % w, d.iff(view.accepts(w), sem.member(r, w)) ^ 1, replay=rp)
    # validity beyond the constructor asserts: initial state and accepting states are states
    job.oblige('initial and accepting states of the result are states of the result',
               d.or_(d.any_(d.and_(g, view.qpres.get(q, FALSE) ^ 1) for q, g in view.q0.items()),
                     d.any_(d.and_(g, view.qpres.get(q, FALSE) ^ 1) for q, g in view.F.items())), replay=rp)
    job.failures_as_obligations(replay=rp)
    return job.solve()


def job_dfa_to_regexp(job, n, syms, maxlen, order='symbolic'):
    from gambatools.regexp_algorithms import dfa_to_regexp
    from .regexp_sym import Sem, regexp_json
    from .oracles import DfaView
    job.functions('regexp_algorithms', ['dfa_to_regexp', 'dfa_to_gnfa', 'gnfa_minimize', 'regexp_simplify'])
    job.functions('gnfa', ['GNFA'])
    d = E.dag
    syms = list(syms)
    if order == 'symbolic':
        L.ORDER['mode'] = 'symbolic'
    Dm, names, _ = c.sym_dfa(n, len(syms), syms=syms)
    view = DfaView(Dm, names, syms)
    job.inputs['D'] = Dm
    job.decoders['D'] = view.to_json
    rp = ('d2r', {'D': view.to_json, 'maxlen': maxlen})
    r = job.call(dfa_to_regexp, Dm, replay=rp)
    job.lifted()
    if r is None:
        return job.solve()
    sem = Sem()
    for w in c.words_upto(syms, maxlen):
        job.oblige('dfa_to_regexp(D) denotes %r iff D accepts it' % w, d.iff(sem.member(r, w), view.accepts(w)) ^ 1, replay=rp)
    # argument unchanged
    from .C14 import dfa_changed
    job.oblige('argument DFA unchanged', dfa_changed(view, DfaView(Dm, names, syms)), replay=rp)
    job.failures_as_obligations(replay=rp)
    return job.solve()


def jobs(tier):
    J = []

    def add(name, fn, timeout=None, **params):
        J.append({'name': name, 'fn': fn, 'params': params, **({'timeout': timeout} if timeout else {})})
    q = tier == 'quick'
    tmo = 900 if q else 3000
    add('r2n_d1_L4', job_regexp_to_nfa, depth=1, maxlen=4, timeout=tmo)
    add('r2n_d2_L3', job_regexp_to_nfa, depth=2, maxlen=3, timeout=tmo)
    add('r2n_star_of_concat_of_stars', job_regexp_to_nfa, depth=3, maxlen=3, shape=['I', ['C', ['I', 0], ['I', 0]]], timeout=tmo)
    add('r2n_star_of_d2', job_regexp_to_nfa, depth=3, maxlen=3, shape=['I', 2] if not q else ['I', ['C', 1, 1]], timeout=tmo)
    add('r2n_concat_star_d1', job_regexp_to_nfa, depth=3, maxlen=3, shape=['C', ['I', 1], ['I', 1]], timeout=tmo)
    add('r2n_sum_star_d1', job_regexp_to_nfa, depth=3, maxlen=3, shape=['S', ['I', 1], 1], timeout=tmo)
    add('r2n_digits', job_regexp_to_nfa, depth=1, maxlen=3, syms='01', timeout=tmo)
    add('d2r_n2_ab', job_dfa_to_regexp, n=2, syms='ab', maxlen=4, timeout=tmo)
    add('d2r_n2_01', job_dfa_to_regexp, n=2, syms='01', maxlen=4, timeout=tmo)
    add('d2r_n2_abc', job_dfa_to_regexp, n=2, syms='abc', maxlen=3, timeout=tmo)
    add('d2r_n3_a', job_dfa_to_regexp, n=3, syms='a', maxlen=5, timeout=tmo)
    add('d2r_n1_ab', job_dfa_to_regexp, n=1, syms='ab', maxlen=3, timeout=tmo)
    if not q:
        add('d2r_n3_ab', job_dfa_to_regexp, n=3, syms='ab', maxlen=4, timeout=tmo)
        add('r2n_d3_sum', job_regexp_to_nfa, depth=3, maxlen=3, shape=['S', 2, 2], timeout=tmo)
        add('r2n_d3_concat', job_regexp_to_nfa, depth=3, maxlen=3, shape=['C', 2, 2], timeout=tmo)
    return J


def _replay_r2n(rp):
    from gambatools.regexp_algorithms import regexp_to_nfa
    r = nat.mk_regexp(rp['r'])
    try:
        N = regexp_to_nfa(r)
        nj = nat.nfa_json_of(N)
        nat.mk_nfa(nj)
    except Exception as e:
        return True, {'library raised': repr(e)}
    n = rp['maxlen'] + 1
    words = nat.words_upto(rp['syms'], n)
    exp = nat.ref_regexp_lang(rp['r'], n) & set(words)
    got = {w for w in words if nat.ref_nfa_accepts(nj, w)}
    return got != exp, {'regexp': str(r), 'differs on': sorted(got ^ exp, key=lambda w: (len(w), w))[:4]}


def _replay_d2r(rp):
    from gambatools.regexp_algorithms import dfa_to_regexp
    D = nat.mk_dfa(rp['D'])
    before = nat.dfa_json_of(D)
    try:
        r = dfa_to_regexp(D)
    except Exception as e:
        return True, {'library raised': repr(e)}
    n = rp['maxlen'] + 1
    words = nat.words_upto(rp['D']['Sigma'], n)
    exp = {w for w in words if nat.ref_dfa_accepts(rp['D'], w)}
    got = nat.ref_regexp_lang(nat.regexp_json_of(r), n) & set(words)
    return got != exp or nat.dfa_json_of(D) != before, {'regexp': str(r), 'differs on': sorted(got ^ exp, key=lambda w: (len(w), w))[:4],
                                                      'argument modified': nat.dfa_json_of(D) != before}


REPLAY = {'r2n': _replay_r2n, 'd2r': _replay_d2r}
