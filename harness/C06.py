"""C06 -- regexp-to-NFA and DFA-to-regexp conversions preserve the language."""
from . import common as c
from . import nat
from .common import E, L, TRUE, FALSE

META = {
    'bounds': {'quick': 'regexp->NFA: all regexp trees of depth <= 2 over {a, b} plus selected depth-3 shapes ((r*.s*)*, star of depth 2, '
                        'sums / concatenations of stars), words of length <= 3 (<= 4 for the small shapes); DFA->regexp: all DFAs with '
                        'n <= 2 over {a, b}, n = 2 over {0, 1} and over {a, b, c}, n = 3 over {a}, every state-elimination order '
                        '(symbolic permutation of the set being iterated), words <= 4',
               'thorough': 'depth 3 skeleton (root cubes), DFAs with 3 states over {a, b}, words <= 5'},
    'outside': 'all word lengths: for regular expressions no small exact bound exists, so language equality is claimed only up to '
               'the stated word length; larger trees / automata',
    'oracle': 'denotational regexp semantics (as C05) and reachability-matrix NFA / one-hot DFA semantics (as C01); the NFA built '
              'by the generator is read through a merged field view of the guarded union of result objects',
    'assumptions': ['Symbol nodes carry single characters', "DFA state names differ from 'start' and 'accept' (documented assert)"],
}


def job_regexp_to_nfa(job, depth, maxlen, syms='ab', shape=None, exh=12):
    c.set_exhaustive(exh)
    from gambatools.regexp_algorithms import regexp_to_nfa
    from .regexp_sym import skeleton, shaped, Sem, regexp_json
    from .oracles import NfaView
    from .C05 import _tup
    job.functions('regexp_algorithms', ['regexp_to_nfa', 'RegexpToNFAGenerator'])
    job.functions('nfa_algorithms', ['nfa_union', 'nfa_concatenation', 'nfa_repetition'])
    d = E.dag
    syms = list(syms)
    r = shaped(_tup(shape), syms) if shape is not None else skeleton(depth, syms)
    dec = lambda mv: regexp_json(r, mv)
    job.inputs['r'] = r
    job.decoders['r'] = dec
    rp = ('r2n', {'r': dec, 'maxlen': maxlen, 'syms': syms})
    Nr = job.call(regexp_to_nfa, r, replay=rp)
    job.lifted()
    if Nr is None:
        return job.solve()
    if isinstance(Nr, L.U):
        none_g = d.any_(g for g, v in Nr.alts if v is None)
        job.oblige('regexp_to_nfa(r) returns an NFA', none_g, replay=rp)
        Nr = E.mk([(g, v) for g, v in Nr.alts if v is not None])
    view = NfaView(Nr, None, syms)
    job.result['notes'].append('result NFA: %d candidate states' % len(view.names))
    sem = Sem()
    for w in c.words_upto(syms, maxlen):
        job.oblige('regexp_to_nfa(r) accepts %r iff r denotes it' % w, d.iff(view.accepts(w), sem.member(r, w)) ^ 1, replay=rp)
    # validity beyond the constructor asserts: initial state and accepting states are states
    job.oblige('initial and accepting states of the result are states of the result',
               d.or_(d.any_(d.and_(g, view.qpres.get(q, FALSE) ^ 1) for q, g in view.q0.items()),
                     d.any_(d.and_(g, view.qpres.get(q, FALSE) ^ 1) for q, g in view.F.items())), replay=rp)
    job.failures_as_obligations(replay=rp)
    job.sample_replays = 3
    return job.solve()


def job_dfa_to_regexp(job, n, syms, maxlen, order='symbolic', exh=14, perm=None, history=False):
    c.set_exhaustive(exh)
    if perm is not None:
        # one job per elimination order (cube splitting over the schedule): perm-th permutation of the states
        L.ORDER['concrete_perm'] = perm
        job.result['notes'].append('state-elimination order: permutation #%d of the %d states (one job per permutation)' % (perm, n))
    from gambatools.regexp_algorithms import dfa_to_regexp
    from .regexp_sym import Sem, regexp_json
    from .oracles import DfaView
    job.functions('regexp_algorithms', ['dfa_to_regexp', 'dfa_to_gnfa', 'gnfa_minimize', 'regexp_simplify'])
    job.functions('gnfa', ['GNFA'])
    d = E.dag
    syms = list(syms)
    if order == 'symbolic':
        # the order in which states are ripped is the iteration order of Q - {start, accept}: symbolic (all n! orders);
        # the two inner loops (which range over sets containing start / accept) keep a fixed order
        L.ORDER['mode'] = 'symbolic'
        L.ORDER['filter'] = lambda elems: not any(str(e) in ('start', 'accept') for e in elems)
    Dm, names, _ = c.sym_dfa(n, len(syms), syms=syms)
    view = DfaView(Dm, names, syms)
    job.inputs['D'] = Dm
    job.decoders['D'] = view.to_json
    rp = ('d2r', {'D': view.to_json, 'maxlen': maxlen, 'nseeds': 48})
    r = job.call(dfa_to_regexp, Dm, replay=rp)
    r2 = unchanged = None
    if history and r is not None:
        # call history: the same DFA object is edited in place (the initial state changes its accepting status) and converted
        # again - the second expression must denote the language of the automaton as it is now
        from .C14 import dfa_changed
        unchanged = dfa_changed(view, DfaView(Dm, names, syms))
        Dm.F.m[names[0]] = Dm.F.m.get(names[0], FALSE) ^ 1
        view2 = DfaView(Dm, names, syms)
        rph = ('d2r_history', {'D': view.to_json, 'maxlen': maxlen, 'toggle': names[0]})
        r2 = job.call(dfa_to_regexp, Dm, replay=rph)
    job.lifted()
    if perm is not None and L.ORDER.get('log'):
        rp[1]['rip_order'] = list(L.ORDER['log'][0])
    if r is None:
        return job.solve()
    sem = Sem()
    for w in c.words_upto(syms, maxlen):
        job.oblige('dfa_to_regexp(D) denotes %r iff D accepts it' % w, d.iff(sem.member(r, w), view.accepts(w)) ^ 1, replay=rp)
    # argument unchanged
    from .C14 import dfa_changed
    job.oblige('argument DFA unchanged', unchanged if unchanged is not None else dfa_changed(view, DfaView(Dm, names, syms)), replay=rp)
    if r2 is not None:
        for w in c.words_upto(syms, maxlen):
            job.oblige('after an in-place edit of D: dfa_to_regexp(D) denotes %r iff D now accepts it' % w,
                       d.iff(sem.member(r2, w), view2.accepts(w)) ^ 1, replay=rph)
    job.failures_as_obligations(replay=rp)
    job.sample_replays = 3
    return job.solve()


def _shapes(depth, max_leaves):
    """all operator shapes of the given maximal depth with at most max_leaves leaves (0 = a symbolic leaf)"""
    if depth == 0:
        return [(0, 1)]
    sub = _shapes(depth - 1, max_leaves)
    out = [(0, 1)]
    for s, n in sub:
        out.append((['I', s], n))
    for s, n in sub:
        for t, m in sub:
            if n + m <= max_leaves:
                out.append((['S', s, t], n + m))
                out.append((['C', s, t], n + m))
    return out


def _shape_name(s):
    if s == 0:
        return 'x'
    if s[0] == 'I':
        return 'I' + _shape_name(s[1])
    return s[0] + _shape_name(s[1]) + _shape_name(s[2])


def _depth(s):
    return 0 if s == 0 else 1 + max(_depth(x) for x in s[1:])


def jobs(tier):
    J = []

    def add(name, fn, timeout=None, **params):
        J.append({'name': name, 'fn': fn, 'params': params, **({'timeout': timeout} if timeout else {})})
    q = tier == 'quick'
    tmo = 600 if q else 3000
    # regexp -> NFA: every operator shape (structure concrete = cube splitting on the operator choices), leaves symbolic
    # over {Zero, One, a, b}: together all trees of depth <= 2 (quick) / all trees of depth <= 3 with <= 4 leaves (thorough)
    import math
    for s, nl in _shapes(2 if q else 3, 4):
        add('r2n_%s' % _shape_name(s), job_regexp_to_nfa, depth=_depth(s), maxlen=4 if (nl <= 2 or not q) else 3, shape=s, timeout=tmo)
    if q:
        for s in (['I', ['C', ['I', 0], ['I', 0]]], ['I', ['S', ['C', 0, 0], 0]], ['C', ['I', ['S', 0, 0]], ['I', 0]],
                  ['I', ['C', 0, ['I', ['S', 0, 0]]]], ['S', ['I', ['C', 0, 0]], ['C', 0, 0]], ['C', ['C', 0, ['I', 0]], ['S', 0, 0]]):
            add('r2n_%s' % _shape_name(s), job_regexp_to_nfa, depth=_depth(s), maxlen=3, shape=s, timeout=tmo)
    for s in (['S', ['C', 0, 0], 0], ['I', ['S', 0, 0]], ['C', ['I', 0], 0]):
        add('r2n_digits_%s' % _shape_name(s), job_regexp_to_nfa, depth=_depth(s), maxlen=3, shape=s, syms='01', timeout=tmo)
    # DFA -> regexp: all DFAs, one job per state-elimination order (cube splitting over the schedule) plus fully symbolic order for n = 2
    add('d2r_n1_ab', job_dfa_to_regexp, n=1, syms='ab', maxlen=3, timeout=tmo)
    add('d2r_n2_a_edit_history', job_dfa_to_regexp, n=2, syms='a', maxlen=4, perm=0, history=True, timeout=tmo)
    add('d2r_n2_ab_edit_history', job_dfa_to_regexp, n=2, syms='ab', maxlen=3, perm=1, history=True, timeout=tmo)
    add('d2r_n2_ab_symbolic_order', job_dfa_to_regexp, n=2, syms='ab', maxlen=4, timeout=tmo)
    add('d2r_n2_a_symbolic_order', job_dfa_to_regexp, n=2, syms='a', maxlen=5, timeout=tmo)
    for syms, ml in (('ab', 5), ('01', 4), ('abc', 3)):
        for p in range(2):
            add('d2r_n2_%s_p%d' % (syms, p), job_dfa_to_regexp, n=2, syms=syms, maxlen=ml, perm=p, timeout=tmo)
    for p in range(6):
        add('d2r_n3_a_p%d' % p, job_dfa_to_regexp, n=3, syms='a', maxlen=6, perm=p, timeout=tmo)
        add('d2r_n3_ab_p%d' % p, job_dfa_to_regexp, n=3, syms='ab', maxlen=4 if q else 5, perm=p, exh=15, timeout=tmo)
    if not q:
        add('r2n_d1_L4', job_regexp_to_nfa, depth=1, maxlen=4, timeout=tmo)
        add('r2n_star_of_d1', job_regexp_to_nfa, depth=2, maxlen=3, shape=['I', 1], timeout=tmo)
        for p in range(24):
            add('d2r_n4_a_p%d' % p, job_dfa_to_regexp, n=4, syms='a', maxlen=6, perm=p, exh=16, timeout=tmo)
        for p in range(6):
            add('d2r_n3_01_p%d' % p, job_dfa_to_regexp, n=3, syms='01', maxlen=4, perm=p, exh=15, timeout=tmo)
    return J


def _replay_r2n(rp):
    from gambatools.regexp_algorithms import regexp_to_nfa
    r = nat.mk_regexp(rp['r'])
    try:
        N = regexp_to_nfa(r)
        nj = nat.nfa_json_of(N)
        nat.mk_nfa(nj)
    except Exception as e:
        return True, {'library raised': repr(e)}
    n = rp['maxlen'] + 1
    words = nat.words_upto(rp['syms'], n)
    exp = nat.ref_regexp_lang(rp['r'], n) & set(words)
    got = {w for w in words if nat.ref_nfa_accepts(nj, w)}
    return got != exp, {'regexp': str(r), 'differs on': sorted(got ^ exp, key=lambda w: (len(w), w))[:4]}


class _OrderedStates(set):
    """a set of states whose differences iterate in a prescribed order (the elimination order chosen by the solver);
    used to drive the real gnfa_minimize along that order when the current hash seed happens to produce another one"""

    def __init__(self, items, order):
        super().__init__(items)
        self._order = list(order)

    def __sub__(self, other):
        rest = set(self).difference(other)
        return [q for q in self._order if q in rest] + [q for q in rest if q not in self._order]


def _replay_d2r(rp):
    from gambatools.regexp_algorithms import dfa_to_regexp, dfa_to_gnfa, gnfa_minimize
    D = nat.mk_dfa(rp['D'])
    before = nat.dfa_json_of(D)
    try:
        r = dfa_to_regexp(D)
    except Exception as e:
        return True, {'library raised': repr(e)}
    ok, detail = _judge_d2r(rp, D, before, r)
    if ok or not rp.get('rip_order'):
        return ok, detail
    # same DFA, the real gnfa_minimize, states ripped in the order of the counterexample
    try:
        G = dfa_to_gnfa(D)
        G.Q = _OrderedStates(G.Q, rp['rip_order'])
        gnfa_minimize(G)
        r = G.delta[G.q_start, G.q_accept]
    except Exception as e:
        return True, {'library raised': repr(e), 'rip order': rp['rip_order']}
    ok, detail = _judge_d2r(rp, D, before, r)
    detail['rip order forced'] = rp['rip_order']
    return ok, detail


def _judge_d2r(rp, D, before, r):
    n = rp['maxlen'] + 1
    words = nat.words_upto(rp['D']['Sigma'], n)
    exp = {w for w in words if nat.ref_dfa_accepts(rp['D'], w)}
    got = nat.ref_regexp_lang(nat.regexp_json_of(r), n) & set(words)
    return got != exp or nat.dfa_json_of(D) != before, {'regexp': str(r), 'differs on': sorted(got ^ exp, key=lambda w: (len(w), w))[:4],
                                                      'argument modified': nat.dfa_json_of(D) != before}


def _replay_d2r_history(rp):
    from gambatools.regexp_algorithms import dfa_to_regexp
    D = nat.mk_dfa(rp['D'])
    try:
        dfa_to_regexp(D)
        D.F ^= {type(next(iter(D.Q)))(rp['toggle'])}
        r = dfa_to_regexp(D)
    except Exception as e:
        return True, {'library raised': repr(e)}
    js = dict(rp['D'], F=sorted(set(rp['D']['F']) ^ {rp['toggle']}))
    n = rp['maxlen'] + 1
    words = nat.words_upto(js['Sigma'], n)
    exp = {w for w in words if nat.ref_dfa_accepts(js, w)}
    got = nat.ref_regexp_lang(nat.regexp_json_of(r), n) & set(words)
    return got != exp, {'regexp after the edit': str(r), 'differs on': sorted(got ^ exp, key=lambda w: (len(w), w))[:4]}


REPLAY = {'d2r_history': _replay_d2r_history, 'r2n': _replay_r2n, 'd2r': _replay_d2r}
