"""Native-side helpers (no engine, importable under /venv/bin/python): rebuild library objects from
the JSON form of a counterexample, and brute-force reference semantics used by the replay step and
by differential validation. Independent of the library's algorithms."""
import itertools
from collections import defaultdict


def words_upto(syms, n):
    return [''.join(w) for l in range(n + 1) for w in itertools.product(sorted(syms), repeat=l)]


# ------------------------------------------------------------------ DFA
def mk_dfa(js, mod=None):
    if mod is None:
        import gambatools.dfa as mod
    delta = {(q, a): t for q, a, t in js['delta']}
    return mod.DFA(set(js['Q']), set(js['Sigma']), delta, js['q0'], set(js['F']))


def dfa_json_of(D):
    return {'Q': sorted(D.Q), 'Sigma': sorted(D.Sigma), 'delta': sorted([q, a, t] for (q, a), t in D.delta.items()),
            'q0': D.q0, 'F': sorted(D.F)}


def ref_dfa_accepts(js, w):
    delta = {(q, a): t for q, a, t in js['delta']}
    q = js['q0']
    for a in w:
        q = delta[(q, a)]
    return q in set(js['F'])


# ------------------------------------------------------------------ NFA
def mk_nfa(js, mod=None):
    if mod is None:
        import gambatools.nfa as mod
    delta = defaultdict(set) if js.get('defaultdict', True) else {}
    for q, a, ts in js['delta']:
        delta[(q, a)] = set(ts)
    return mod.NFA(set(js['Q']), set(js['Sigma']), delta, js['q0'], set(js['F']), js['epsilon'])


def nfa_json_of(N):
    return {'Q': sorted(N.Q), 'Sigma': sorted(N.Sigma), 'delta': sorted([q, a, sorted(ts)] for (q, a), ts in N.delta.items()),
            'q0': N.q0, 'F': sorted(N.F), 'epsilon': N.epsilon, 'defaultdict': isinstance(N.delta, defaultdict)}


def ref_closure(js, S):
    eps = js['epsilon']
    T = {(q, a): set(ts) for q, a, ts in js['delta']}
    S = set(S)
    changed = True
    while changed:
        changed = False
        for q in list(S):
            for t in T.get((q, eps), ()):
                if t not in S:
                    S.add(t)
                    changed = True
    return S


def ref_nfa_accepts(js, w):
    T = {(q, a): set(ts) for q, a, ts in js['delta']}
    cur = ref_closure(js, {js['q0']})
    for a in w:
        nxt = set()
        if a != js['epsilon']:
            for q in cur:
                nxt |= T.get((q, a), set())
        cur = ref_closure(js, nxt)
    return bool(cur & set(js['F']))


# ------------------------------------------------------------------ regexps
def mk_regexp(js, mod=None):
    if mod is None:
        import gambatools.regexp as mod
    tag = js[0]
    if tag == 'Zero':
        return mod.Zero()
    if tag == 'One':
        return mod.One()
    if tag == 'Symbol':
        return mod.Symbol(js[1])
    if tag == 'Iteration':
        return mod.Iteration(mk_regexp(js[1], mod))
    return getattr(mod, tag)(mk_regexp(js[1], mod), mk_regexp(js[2], mod))


def regexp_json_of(r):
    n = type(r).__name__
    if n in ('Zero', 'One'):
        return [n]
    if n == 'Symbol':
        return [n, r.symbol]
    if n == 'Iteration':
        return [n, regexp_json_of(r.operand)]
    return [n, regexp_json_of(r.left), regexp_json_of(r.right)]


def ref_regexp_lang(js, n):
    """all words of length <= n in the denoted language (denotational, bottom-up, independent)"""
    tag = js[0]
    if tag == 'Zero':
        return set()
    if tag == 'One':
        return {''}
    if tag == 'Symbol':
        return {js[1]} if len(js[1]) <= n else set()
    if tag == 'Sum':
        return ref_regexp_lang(js[1], n) | ref_regexp_lang(js[2], n)
    if tag == 'Concat':
        A, B = ref_regexp_lang(js[1], n), ref_regexp_lang(js[2], n)
        return {x + y for x in A for y in B if len(x + y) <= n}
    A = ref_regexp_lang(js[1], n)
    res = {''}
    while True:
        new = res | {x + y for x in res for y in A if len(x + y) <= n}
        if new == res:
            return res
        res = new


def regexp_nodes(js):
    return 1 + sum(regexp_nodes(c) for c in js[1:] if isinstance(c, list))


# ------------------------------------------------------------------ Turing machines
def mk_tm(js, mod=None):
    if mod is None:
        import gambatools.tm as mod
    delta = {(p, a): (q, b, d) for p, a, q, b, d in js['delta']}
    return mod.TM(set(js['Q']), set(js['Sigma']), set(js['Gamma']), delta, js['q0'], js['q_accept'], js['q_reject'], js['blank'])


def ref_tm_run(js, word, k):
    """-> (verdict, trace) by the definition: at most k steps, stop at the first halting state"""
    delta = {(p, a): (q, b, d) for p, a, q, b, d in js['delta']}
    q = js['q0']
    tape = list(word) or [js['blank']]
    head = 0
    trace = [(q, list(tape), head)]
    halting = (js['q_accept'], js['q_reject'])
    steps = 0
    while q not in halting and steps < k:
        a = tape[head]
        if (q, a) in delta:
            q, b, d = delta[(q, a)]
        else:
            q, b, d = js['q_reject'], a, 'R'
        tape[head] = b
        head = max(head - 1, 0) if d == 'L' else head + 1
        if head == len(tape):
            tape.append(js['blank'])
        steps += 1
        trace.append((q, list(tape), head))
    verdict = True if q == js['q_accept'] else False if q == js['q_reject'] else None
    return verdict, trace


# ------------------------------------------------------------------ context-free grammars
def _is_var(s):
    return not (len(s) == 1 and (s.islower() or s.isdigit()))


def mk_cfg(js, mod=None):
    if mod is None:
        import gambatools.cfg as mod
    sym = lambda s: mod.Variable(s) if _is_var(s) else mod.Terminal(s)
    R = [mod.Rule(mod.Variable(X), mod.Alternative([sym(s) for s in rhs])) for X, rhs in js['R']]
    return mod.CFG(set(mod.Variable(v) for v in js['V']), set(mod.Terminal(t) for t in js['Sigma']), R, mod.Variable(js['S']))


def cfg_json_of(G):
    return {'V': sorted(str(v) for v in G.V), 'Sigma': sorted(str(t) for t in G.Sigma), 'S': str(G.S),
            'R': [[str(r.variable), [str(s) for s in r.alternative.symbols]] for r in G.R]}


def ref_cfg_table(js, word):
    """{(X, i, j)}: X derives word[i:j] -- naive least fixpoint over all spans (independent of CYK)"""
    n = len(word)
    V = list(js['V'])
    T = set()
    rules = [(X, tuple(rhs)) for X, rhs in js['R']]

    def sym_ok(s, i, j):
        if s in V:
            return (s, i, j) in T
        if _is_var(s):
            return False
        return j - i == 1 and word[i] == s

    def match(rhs, i, j):
        if not rhs:
            return i == j
        if len(rhs) == 1:
            return sym_ok(rhs[0], i, j)
        return any(sym_ok(rhs[0], i, k) and match(rhs[1:], k, j) for k in range(i, j + 1))
    changed = True
    while changed:
        changed = False
        for X, rhs in rules:
            for i in range(n + 1):
                for j in range(i, n + 1):
                    if (X, i, j) not in T and match(rhs, i, j):
                        T.add((X, i, j))
                        changed = True
    return T


def ref_cfg_accepts(js, word):
    return (js['S'], 0, len(word)) in ref_cfg_table(js, word)


# ------------------------------------------------------------------ pushdown automata
def mk_pda(js, mod=None):
    if mod is None:
        import gambatools.pda as mod
    delta = defaultdict(set)
    for p, a, u, q, v in js['delta']:
        delta[(p, a, u)].add((q, v))
    return mod.PDA(set(js['Q']), set(js['Sigma']), set(js['Gamma']), delta, js['q0'], set(js['F']), js['epsilon'])


def pda_json_of(P):
    return {'Q': sorted(P.Q), 'Sigma': sorted(P.Sigma), 'Gamma': sorted(P.Gamma), 'epsilon': P.epsilon, 'q0': P.q0, 'F': sorted(P.F),
            'delta': sorted([p, a, u, q, v] for (p, a, u), S in P.delta.items() for (q, v) in S)}


def ref_pda_closure(js, confs, max_confs=2000, maxdepth=40):
    """all configurations reachable by epsilon moves; -> (set, complete?)"""
    eps = js['epsilon']
    seen = set(confs)
    todo = list(confs)
    while todo:
        p, st = todo.pop(0)
        for p1, a, u, q, v in js['delta']:
            if p1 != p or a != eps:
                continue
            if u != eps and not (st and st[-1] == u):
                continue
            st1 = st if u == eps else st[:-1]
            if v != eps:
                st1 = st1 + (v,)
            c = (q, st1)
            if c not in seen:
                if len(seen) >= max_confs or len(st1) > maxdepth:
                    return seen, False
                seen.add(c)
                todo.append(c)
    return seen, True


def ref_pda_step(js, confs, a):
    eps = js['epsilon']
    out = set()
    for p, st in confs:
        for p1, a1, u, q, v in js['delta']:
            if p1 != p or a1 != a:
                continue
            if u != eps and not (st and st[-1] == u):
                continue
            st1 = st if u == eps else st[:-1]
            if v != eps:
                st1 = st1 + (v,)
            out.add((q, st1))
    return out


def ref_pda_run(js, w, max_confs=2000):
    """-> (accepted?, complete?, sizes of the closures computed)"""
    confs, ok = ref_pda_closure(js, {(js['q0'], ())}, max_confs)
    sizes = [len(confs)]
    complete = ok
    for a in w:
        confs = ref_pda_step(js, confs, a)
        confs, ok = ref_pda_closure(js, confs, max_confs)
        complete = complete and ok
        sizes.append(len(confs))
    return any(q in set(js['F']) for q, _ in confs), complete, sizes


# ---------------------------------------------------------------- C17: independent reading of a well-formed description
_KEYWORDS = {'dfa': ('input_symbols', 'epsilon', 'stack_symbols', 'tape_symbols', 'blank', 'accept', 'reject'),   # parse_dfa uses the union
             'nfa': ('input_symbols', 'epsilon'), 'pda': ('input_symbols', 'stack_symbols', 'epsilon'),
             'tm': ('input_symbols', 'tape_symbols', 'blank', 'accept', 'reject')}


def _read_description(text, kind='dfa'):
    """tokens of a WELL-FORMED description -> (declared items, transition triples). Reference reader for replays only;
    the keywords are those documented for the format (a PDA state may be called accept, a DFA state may not)"""
    items, trans = {}, []
    for line in text.split('\n'):
        w = line.split()
        if not w or w[0].startswith('%'):
            continue
        if w[0] in ('states', 'initial', 'final') + _KEYWORDS[kind]:
            items[w[0]] = w[1:]
        else:
            trans += [(w[0], a, w[1]) for a in w[2:]]
    return items, trans


def described_dfa(text):
    items, trans = _read_description(text)
    used = set(items.get('initial', [])) | set(items.get('final', [])) | {p for p, _, _ in trans} | {q for _, _, q in trans}
    Q = set(items['states']) if 'states' in items else used
    Sigma = set(items['input_symbols']) if 'input_symbols' in items else {a for _, a, _ in trans}
    return {'Q': sorted(Q), 'Sigma': sorted(Sigma), 'delta': sorted([p, a, q] for p, a, q in trans), 'q0': items['initial'][0], 'F': sorted(items.get('final', []))}


def described_nfa(text):
    items, trans = _read_description(text, 'nfa')
    used = set(items.get('initial', [])) | set(items.get('final', [])) | {p for p, _, _ in trans} | {q for _, _, q in trans}
    Q = set(items['states']) if 'states' in items else used
    eps = items['epsilon'][0] if 'epsilon' in items else ('ε' if any('ε' in a for _, a, _ in trans) else '_')
    Sigma = set(items['input_symbols']) if 'input_symbols' in items else {a for _, a, _ in trans if a != eps}
    delta = {}
    for p, a, q in trans:
        delta.setdefault((p, a), set()).add(q)
    return {'Q': sorted(Q), 'Sigma': sorted(Sigma), 'delta': sorted([p, a, sorted(ts)] for (p, a), ts in delta.items()), 'q0': items['initial'][0],
            'F': sorted(items.get('final', [])), 'epsilon': eps}


def described_pda(text):
    items, trans = _read_description(text, 'pda')
    used = set(items.get('initial', [])) | set(items.get('final', [])) | {p for p, _, _ in trans} | {q for _, _, q in trans}
    Q = set(items['states']) if 'states' in items else used
    eps = items['epsilon'][0] if 'epsilon' in items else ('ε' if any('ε' in a for _, a, _ in trans) else '_')
    Sigma = set(items['input_symbols']) if 'input_symbols' in items else {l[0] for _, l, _ in trans if l[0] != eps}
    Gamma = set(items['stack_symbols']) if 'stack_symbols' in items else ({l[2] for _, l, _ in trans} | {l[3] for _, l, _ in trans}) - {eps}
    return {'Q': sorted(Q), 'Sigma': sorted(Sigma), 'Gamma': sorted(Gamma), 'epsilon': eps, 'q0': items['initial'][0], 'F': sorted(items.get('final', [])),
            'delta': sorted([p, l[0], l[2], q, l[3]] for p, l, q in set(trans))}


def described_tm(text):
    items, trans = _read_description(text, 'tm')
    acc, rej = items['accept'][0], items['reject'][0]
    used = set(items.get('initial', [])) | {p for p, _, _ in trans} | {q for _, _, q in trans}
    Q = set(items['states']) if 'states' in items else used | {acc, rej}
    blank = items['blank'][0] if 'blank' in items else ('□' if any('□' in l for _, l, _ in trans) else '_')
    tape = set(items['tape_symbols']) if 'tape_symbols' in items else ({l[0] for _, l, _ in trans} | {l[1] for _, l, _ in trans})
    Sigma = set(items['input_symbols']) if 'input_symbols' in items else tape - {blank}
    return {'Q': sorted(Q), 'Sigma': sorted(Sigma), 'Gamma': sorted(tape | {blank}),
            'delta': sorted([p, l[0], q, l[1], l[3]] for p, l, q in trans), 'q0': items['initial'][0], 'q_accept': acc, 'q_reject': rej, 'blank': blank}


def summary_of(kind, obj):
    if kind == 'pda':
        j = pda_json_of(obj)
        return {k: (list(map(str, v)) if isinstance(v, list) and k != 'delta' else ([list(map(str, t)) for t in v] if k == 'delta' else str(v))) for k, v in j.items()}
    return {'Q': sorted(map(str, obj.Q)), 'Sigma': sorted(map(str, obj.Sigma)), 'Gamma': sorted(map(str, obj.Gamma)),
            'delta': sorted([str(p), str(a)] + [str(x) for x in v] for (p, a), v in obj.delta.items()),
            'q0': str(obj.q0), 'q_accept': str(obj.q_accept), 'q_reject': str(obj.q_reject), 'blank': str(obj.blank)}


def expected_of_text(kind):
    """the machines written in C17.PDA_TEXT / C17.TM_TEXT, by hand"""
    if kind == 'pda':
        return {'Q': ['p', 'q'], 'Sigma': ['a', 'b'], 'Gamma': ['x'], 'epsilon': '_', 'q0': 'p', 'F': ['q'],
                'delta': sorted([['p', 'a', '_', 'p', 'x'], ['p', '_', '_', 'q', '_'], ['p', 'b', 'x', 'q', '_'], ['q', 'b', 'x', 'q', '_']])}
    return {'Q': ['r', 's', 't'], 'Sigma': ['a', 'b'], 'Gamma': ['_', 'a', 'b'],
            'delta': sorted([['s', 'a', 's', 'a', 'R'], ['s', '_', 's', '_', 'L'], ['s', 'b', 't', '_', 'R']]),
            'q0': 's', 'q_accept': 't', 'q_reject': 'r', 'blank': '_'}


# ---------------------------------------------------------------- C12: derivations (reference validator)
def derivation_justifications(cands, forms, start, word, dtype):
    """forms: list of sentential forms (strings, upper case = variable). -> None if the shape is wrong (first form is not
    the start variable / last form is not the word), else for every step the list of indices of candidate rules
    (variable, rhs string) that justify it for the derivation type ('leftmost' | 'rightmost' | 'any')"""
    if not forms or forms[0] != start or forms[-1] != word:
        return None
    steps = []
    for f, g in zip(forms, forms[1:]):
        varpos = [i for i, ch in enumerate(f) if ch.isupper()]
        if dtype == 'leftmost':
            varpos = varpos[:1]
        elif dtype == 'rightmost':
            varpos = varpos[-1:]
        just = []
        for idx, (X, rhs) in enumerate(cands):
            if any(f[pos] == X and f[:pos] + rhs + f[pos + 1:] == g for pos in varpos):
                just.append(idx)
        steps.append(just)
    return steps
