"""C01 -- DFA / NFA word acceptance and epsilon closure equal the textbook definition."""
from . import common as c
from . import nat
from .common import E, L, TRUE, FALSE

META = {
    'bounds': {
        'quick': 'DFA: n<=3 states, |Sigma|<=2, all words of length<=4; NFA: n<=3, |Sigma|<=2, words<=3, epsilon symbol in '
                 "{'', '_', 'ε'}, total dict and parser-style defaultdict with absent keys; closure: n<=4, every pop order",
        'thorough': 'DFA: n<=5, words<=6; NFA: n<=4, words<=4; closure n<=5',
    },
    'outside': 'automata with more states/symbols than the bound; words longer than the bound; plain-dict NFAs with missing '
               'keys (the library itself only builds total dicts or defaultdicts)',
    'oracle': 'Boolean reachability matrices over the transition bits (reflexive-transitive closure by repeated squaring, '
              'alternating closure and symbol steps); one-hot successor vectors for DFAs',
    'assumptions': ['input automata satisfy the class invariants checked by DFA/NFA._check_validity (asserted on the symbolic '
                    'input and discharged)', 'state names q0..q(n-1), q0 initial (symmetry)',
                    'set.pop() may return any present element (all schedules)'],
}


def job_dfa_accepts(job, n, k, maxlen):
    from gambatools.dfa_algorithms import dfa_accepts_word
    from .oracles import DfaView
    job.functions('dfa_algorithms', ['dfa_accepts_word'])
    job.functions('dfa', ['DFA'])
    Dm, names, syms = c.sym_dfa(n, k)
    view = DfaView(Dm, names, syms)
    job.decoders['D'] = view.to_json
    job.inputs['D'] = Dm
    words = c.words_upto(syms, maxlen)
    d = E.dag
    results = {}
    for w in words:
        results[w] = dfa_accepts_word(Dm, w)
    job.lifted()
    nd = c.native('dfa_algorithms')
    job.differential(40, lambda mv: {w: c.conc(results[w], mv) for w in words},
                     lambda mv: {w: nd.dfa_accepts_word(nat.mk_dfa(view.to_json(mv), c.native('dfa')), w) for w in words},
                     'dfa_accepts_word', replay=('dfa_accepts', {'D': view.to_json, 'word': words[-1]}))
    for w in words:
        bad = d.iff(E.lit(results[w]), view.accepts(w)) ^ 1
        job.oblige('dfa_accepts_word(D, %r) == reference' % w, bad, replay=('dfa_accepts', {'D': view.to_json, 'word': w}))
    job.failures_as_obligations(replay=('dfa_accepts', {'D': view.to_json, 'word': ''}))
    job.must_reach('some DFA accepts the longest word', view.accepts(words[-1]))
    return job.solve()


def job_closure(job, n, eps, partial):
    from gambatools.nfa_algorithms import epsilon_closure
    from .oracles import NfaView, set_eq_bad
    job.functions('nfa_algorithms', ['epsilon_closure'])
    job.functions('nfa', ['NFA'])
    N, names, syms = c.sym_nfa(n, 1, eps=eps, partial=partial)
    view = NfaView(N, names, syms)
    job.inputs['N'] = N
    job.decoders['N'] = view.to_json
    d = E.dag
    C = view.closure()
    # (a) closure of a single state, via NFA.E and via the function
    res_state = {q: (N.E(q) if i % 2 else epsilon_closure(N, q)) for i, q in enumerate(names)}
    # (b) closure of an arbitrary state set
    S = L.GSet()
    sbits = {}
    for q in names:
        sbits[q] = E.fresh('S_%s' % q)
        S.m[q] = sbits[q]
    job.inputs['S'] = L.GSet._from(dict(S.m))
    res_set = epsilon_closure(N, S)
    job.lifted()
    nn = c.native('nfa_algorithms')

    def nat_view(mv):
        Nn = nat.mk_nfa(view.to_json(mv), c.native('nfa'))
        return ({q: nn.epsilon_closure(Nn, q) for q in names}, nn.epsilon_closure(Nn, {q for q in names if mv(sbits[q])}))
    job.differential(40, lambda mv: ({q: c.conc(res_state[q], mv) for q in names}, c.conc(res_set, mv)), nat_view, 'epsilon_closure')
    for q in names:
        job.oblige('epsilon_closure(N, %s) == eps*-row' % q, set_eq_bad(res_state[q], {r: C[q, r] for r in names}),
                   replay=('closure', {'N': view.to_json, 'S': [q], 'single': True}))
    ref = {r: d.any_(d.and_(sbits[p], C[p, r]) for p in names) for r in names}
    job.oblige('epsilon_closure(N, S) == union of eps*-rows', set_eq_bad(res_set, ref),
               replay=('closure', {'N': view.to_json, 'S': lambda mv: [q for q in names if mv(sbits[q])], 'single': False}))
    # the argument set must not be modified
    job.oblige('argument set unchanged', set_eq_bad(S, sbits),
               replay=('closure', {'N': view.to_json, 'S': lambda mv: [q for q in names if mv(sbits[q])], 'single': False}))
    job.failures_as_obligations(replay=('closure', {'N': view.to_json, 'S': lambda mv: [q for q in names if mv(sbits[q])], 'single': False}))
    cyc = d.and_(view.eps_t(names[0], names[-1]), view.eps_t(names[-1], names[0])) if n > 1 else view.eps_t(names[0], names[0])
    job.must_reach('epsilon cycle reachable', cyc)
    return job.solve()


def job_nfa_accepts(job, n, k, maxlen, eps, partial):
    from gambatools.nfa_algorithms import nfa_accepts_word
    from .oracles import NfaView
    job.functions('nfa_algorithms', ['nfa_accepts_word', '_nfa_cache', 'epsilon_closure'])
    N, names, syms = c.sym_nfa(n, k, eps=eps, partial=partial)
    view = NfaView(N, names, syms)
    job.inputs['N'] = N
    job.decoders['N'] = view.to_json
    d = E.dag
    words = c.words_upto(syms, maxlen)
    results = {}
    for w in words:
        results[w] = nfa_accepts_word(N, w)
    job.lifted()
    nn = c.native('nfa_algorithms')
    job.differential(30, lambda mv: {w: c.conc(results[w], mv) for w in words},
                     lambda mv: {w: nn.nfa_accepts_word(nat.mk_nfa(view.to_json(mv), c.native('nfa')), w) for w in words},
                     'nfa_accepts_word', replay=('nfa_accepts', {'N': view.to_json, 'word': words[-1]}))
    for w in words:
        bad = d.iff(E.lit(results[w]), view.accepts(w)) ^ 1
        job.oblige('nfa_accepts_word(N, %r) == reference' % w, bad, replay=('nfa_accepts', {'N': view.to_json, 'word': w}))
    job.failures_as_obligations(replay=('nfa_accepts', {'N': view.to_json, 'word': words[-1]}))
    job.must_reach('some NFA accepts the longest word', view.accepts(words[-1]))
    return job.solve()


def job_nfa_history(job, n, k, maxlen, eps):
    """the acceptance test must answer for the automaton as it is *now*: query, modify the same NFA
    object in place (add one transition, toggle one accepting state), query again"""
    from gambatools.nfa_algorithms import nfa_accepts_word
    from .oracles import NfaView
    job.functions('nfa_algorithms', ['nfa_accepts_word', '_nfa_cache', 'epsilon_closure'])
    N, names, syms = c.sym_nfa(n, k, eps=eps, partial=False)
    view0 = NfaView(N, names, syms)
    job.inputs['N'] = N
    job.decoders['N'] = view0.to_json
    d = E.dag
    words = c.words_upto(syms, maxlen)
    first = {w: nfa_accepts_word(N, w) for w in words}
    # in-place modification through the public attributes
    p = c.choice(names, 'mut_p')
    lab = c.choice(syms + [eps], 'mut_a')
    q = c.choice(names, 'mut_q')
    f = c.choice(names, 'mut_f')
    L.CALLM(L.GETITEM(N.delta, (p, lab)), 'add', q)
    addf = E.fresh('mut_addF')
    for b in L.SPLIT(L.SB(addf)):
        with b:
            if b.which:
                L.CALLM(N.F, 'add', f)
            else:
                L.CALLM(N.F, 'discard', f)
    view1 = NfaView(N, names, syms)
    second = {w: nfa_accepts_word(N, w) for w in words}
    job.lifted()
    mut = {'p': lambda mv: c.conc(p, mv), 'a': lambda mv: c.conc(lab, mv), 'q': lambda mv: c.conc(q, mv),
           'f': lambda mv: c.conc(f, mv), 'addF': lambda mv: mv(addf)}
    job.decoders['mutation'] = lambda mv: {k_: v(mv) for k_, v in mut.items()}
    job.inputs['mutation'] = None
    for w in words:
        rp = ('nfa_history', {'N': view0.to_json, 'words': words, 'word': w, **mut})
        job.oblige('first query %r == reference' % w, d.iff(E.lit(first[w]), view0.accepts(w)) ^ 1, replay=rp)
        job.oblige('query %r after in-place modification == reference of the modified NFA' % w,
                   d.iff(E.lit(second[w]), view1.accepts(w)) ^ 1, replay=rp)
    job.failures_as_obligations(replay=('nfa_history', {'N': view0.to_json, 'words': words, 'word': words[-1], **mut}))
    job.must_reach('modification changes the verdict on some word', d.any_(d.iff(view0.accepts(w), view1.accepts(w)) ^ 1 for w in words))
    return job.solve()


def jobs(tier):
    J = []

    def add(name, fn, timeout=None, **params):
        J.append({'name': name, 'fn': fn, 'params': params, **({'timeout': timeout} if timeout else {})})
    if tier == 'quick':
        add('dfa_accepts_n1_k1', job_dfa_accepts, n=1, k=1, maxlen=3)
        add('dfa_accepts_n2_k0', job_dfa_accepts, n=2, k=0, maxlen=2)
        add('dfa_accepts_n3_k2', job_dfa_accepts, n=3, k=2, maxlen=4)
        add('closure_n3', job_closure, n=3, eps='', partial=False)
        add('closure_n4_partial', job_closure, n=4, eps='_', partial=True)
        add('nfa_accepts_n3_k2', job_nfa_accepts, n=3, k=2, maxlen=3, eps='', partial=False)
        add('nfa_accepts_n2_k2_partial_us', job_nfa_accepts, n=2, k=2, maxlen=3, eps='_', partial=True)
        add('nfa_accepts_n2_k1_eps_unicode', job_nfa_accepts, n=2, k=1, maxlen=3, eps='ε', partial=True)
        add('nfa_history_n2_k1', job_nfa_history, n=2, k=1, maxlen=3, eps='')
    else:
        add('nfa_history_n3_k2', job_nfa_history, n=3, k=2, maxlen=3, eps='_')
        add('dfa_accepts_n1_k1', job_dfa_accepts, n=1, k=1, maxlen=4)
        add('dfa_accepts_n2_k0', job_dfa_accepts, n=2, k=0, maxlen=2)
        add('dfa_accepts_n4_k2', job_dfa_accepts, n=4, k=2, maxlen=6)
        add('dfa_accepts_n5_k2', job_dfa_accepts, n=5, k=2, maxlen=6, timeout=3000)
        add('dfa_accepts_n3_k3', job_dfa_accepts, n=3, k=3, maxlen=4)
        add('closure_n5', job_closure, n=5, eps='', partial=False)
        add('closure_n5_partial', job_closure, n=5, eps='_', partial=True)
        add('nfa_accepts_n4_k2', job_nfa_accepts, n=4, k=2, maxlen=4, eps='', partial=False, timeout=3000)
        add('nfa_accepts_n3_k2_partial_us', job_nfa_accepts, n=3, k=2, maxlen=4, eps='_', partial=True)
        add('nfa_accepts_n3_k1_eps_unicode', job_nfa_accepts, n=3, k=1, maxlen=5, eps='ε', partial=True)
    return J


# ------------------------------------------------------------------ native replay
def _replay_dfa_accepts(rp):
    from gambatools.dfa_algorithms import dfa_accepts_word
    Dn = nat.mk_dfa(rp['D'])
    got = dfa_accepts_word(Dn, rp['word'])
    exp = nat.ref_dfa_accepts(rp['D'], rp['word'])
    return got != exp, {'library': got, 'reference': exp}


def _replay_nfa_accepts(rp):
    from gambatools.nfa_algorithms import nfa_accepts_word
    Nn = nat.mk_nfa(rp['N'])
    try:
        got = nfa_accepts_word(Nn, rp['word'])
    except Exception as e:
        return True, {'library raised': repr(e)}
    exp = nat.ref_nfa_accepts(rp['N'], rp['word'])
    return got != exp, {'library': got, 'reference': exp}


def _replay_closure(rp):
    from gambatools.nfa_algorithms import epsilon_closure
    Nn = nat.mk_nfa(rp['N'])
    arg = rp['S'][0] if rp.get('single') else set(rp['S'])
    before = set(arg) if isinstance(arg, set) else arg
    try:
        got = Nn.E(arg) if rp.get('single') else epsilon_closure(Nn, arg)
    except Exception as e:
        return True, {'library raised': repr(e)}
    exp = nat.ref_closure(rp['N'], rp['S'])
    return (got != exp) or (arg != before), {'library': sorted(got), 'reference': sorted(exp), 'argument_after': sorted(arg) if isinstance(arg, set) else arg}


def _replay_nfa_history(rp):
    from gambatools.nfa_algorithms import nfa_accepts_word
    Nn = nat.mk_nfa(rp['N'])
    js1 = dict(rp['N'])
    first = {w: nfa_accepts_word(Nn, w) for w in rp['words']}
    Nn.delta[rp['p'], rp['a']].add(rp['q'])
    (Nn.F.add if rp['addF'] else Nn.F.discard)(rp['f'])
    js1 = nat.nfa_json_of(Nn)
    second = {w: nfa_accepts_word(Nn, w) for w in rp['words']}
    bad1 = {w: first[w] for w in rp['words'] if first[w] != nat.ref_nfa_accepts(rp['N'], w)}
    bad2 = {w: second[w] for w in rp['words'] if second[w] != nat.ref_nfa_accepts(js1, w)}
    return bool(bad1 or bad2), {'wrong before modification': bad1, 'wrong after modification': bad2}


REPLAY = {'nfa_history': _replay_nfa_history, 'dfa_accepts': _replay_dfa_accepts, 'nfa_accepts': _replay_nfa_accepts, 'closure': _replay_closure}
