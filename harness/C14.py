"""C14 -- DFA closure constructions and the finite-language helpers."""
import itertools

from . import common as c
from . import nat
from .common import E, L, TRUE, FALSE

META = {
    'bounds': {'quick': 'products: all pairs of DFAs 2x2 over |Sigma|<=2 and 3x2 over |Sigma|=1; complement, reverse, no_prefix, '
                        'no_extend, remove_unreachable, make_total: all DFAs with n<=3, |Sigma|<=2 (reverse n<=3 with |Sigma|=1, n=2 '
                        'with |Sigma|=2); language equality decided for ALL word lengths through the exact bound m1 + m2 - 2; '
                        'helpers: all languages L (and pairs) contained in {a,b}^{<=2} / {a,b}^{<=3}',
               'thorough': 'n<=4 (products 3x3), helpers over {a,b}^{<=3} x {a,b}^{<=3}'},
    'outside': 'larger automata; alphabets that contain the symbol the construction uses for epsilon',
    'oracle': 'definition of each operation evaluated on the one-hot runs of the argument DFAs along one position-wise symbolic '
              'word (for the mirror image the argument is run on the reversed positions); set comprehension semantics for helpers',
    'assumptions': ['argument DFAs valid (total) except for dfa_make_total, whose argument is a partial DFA built with '
                    'check_validity=False', 'both operands of a product have the same alphabet (documented assert)'],
}


def dfa_changed(before, after):
    d = E.dag
    bad = d.any_(d.iff(before.F[q], after.F.get(q, FALSE)) ^ 1 for q in before.names)
    bad = d.or_(bad, d.any_(d.iff(before.qpres[q], after.qpres.get(q, FALSE)) ^ 1 for q in before.names))
    for key in set(before.dl) | set(after.dl):
        for t in set(before.dl.get(key, {})) | set(after.dl.get(key, {})):
            bad = d.or_(bad, d.iff(before.dl.get(key, {}).get(t, FALSE), after.dl.get(key, {}).get(t, FALSE)) ^ 1)
    bad = d.or_(bad, d.any_(after.qpres[q] for q in after.names if q not in before.qpres))
    return bad


def job_product(job, n1, n2, k, names1=None, names2=None):
    import gambatools.dfa_algorithms as DA
    from .oracles import DfaView
    job.functions('dfa_algorithms', ['dfa_product', 'dfa_union', 'dfa_intersection', 'dfa_symmetric_difference'])
    D1, names1, syms = c.sym_dfa(n1, k, tag='A', names=names1)
    D2, names2, _ = c.sym_dfa(n2, k, tag='B', names=names2 or ['p%d' % i for i in range(n2)])
    v1, v2 = DfaView(D1, names1, syms), DfaView(D2, names2, syms)
    job.inputs['D1'], job.inputs['D2'] = D1, D2
    job.decoders['D1'], job.decoders['D2'] = v1.to_json, v2.to_json
    d = E.dag
    ops = {'union': (DA.dfa_union, d.or_), 'intersection': (DA.dfa_intersection, d.and_),
           'symmetric_difference': (DA.dfa_symmetric_difference, lambda a, b: d.iff(a, b) ^ 1)}
    res = {op: f(D1, D2) for op, (f, _) in ops.items()}
    job.lifted()
    nd = c.native('dfa_algorithms')
    job.differential(20, lambda mv: {op: nat.dfa_json_of(c.conc(r, mv)) for op, r in res.items()},
                     lambda mv: {op: nat.dfa_json_of(getattr(nd, 'dfa_' + op)(nat.mk_dfa(v1.to_json(mv), c.native('dfa')), nat.mk_dfa(v2.to_json(mv), c.native('dfa')))) for op in ops},
                     'dfa_product', replay=('product', {'D1': v1.to_json, 'D2': v2.to_json}))
    rp = ('product', {'D1': v1.to_json, 'D2': v2.to_json})
    for op, (f, comb) in ops.items():
        rv = DfaView(res[op], None, syms)
        job.oblige('%s: result total' % op, d.any_(d.and_(rv.qpres[s], d.any_(rv.dl.get((s, a), {}).values()) ^ 1) for s in rv.names for a in syms), replay=rp)
        B = len(rv.names) + n1 * n2 - 2
        W = c.sym_positions(syms, B, 'w_' + op[:2]) if syms else []
        a1, a2, ar = v1.init(), v2.init(), rv.init()
        for l in range(B + 1):
            job.oblige('%s: agrees with L1 op L2 on every word of length %d' % (op, l), d.iff(rv.acc(ar), comb(v1.acc(a1), v2.acc(a2))) ^ 1, replay=rp)
            if l < B and syms:
                a1, a2, ar = v1.step(a1, W[l]), v2.step(a2, W[l]), rv.step(ar, W[l])
            if not syms:
                break
    job.oblige('arguments unchanged', d.or_(dfa_changed(v1, DfaView(D1, names1, syms)), dfa_changed(v2, DfaView(D2, names2, syms))), replay=rp)
    job.failures_as_obligations(replay=rp)
    return job.solve()


def sym_partial_dfa(n, k):
    from gambatools.dfa import DFA
    names = ['q%d' % i for i in range(n)]
    syms = c.SYMS[:k]
    delta = L.GDict()
    for q in names:
        for a in syms:
            delta.m[(q, a)] = [E.fresh('key_%s_%s' % (q, a)), c.choice(names, 'd_%s_%s' % (q, a))]
    F = L.GSet()
    for q in names:
        F.m[q] = E.fresh('f_%s' % q)
    return DFA(L.GSet(names), L.GSet(syms), delta, names[0], F, check_validity=False), names, syms


def job_unary(job, op, n, k):
    import gambatools.dfa_algorithms as DA
    from .oracles import DfaView, NfaView
    job.functions('dfa_algorithms', ['dfa_' + op, 'dfa_reachable_states', 'fresh_state', 'dfa_make_total_in_place'])
    d = E.dag
    if op == 'make_total':
        Dm, names, syms = sym_partial_dfa(n, k)
    else:
        Dm, names, syms = c.sym_dfa(n, k)
    view = DfaView(Dm, names, syms)
    job.inputs['D'] = Dm
    job.decoders['D'] = view.to_json
    E.while_bound = n + 4
    rp = ('unary', {'D': view.to_json, 'op': op})
    R = job.call(getattr(DA, 'dfa_' + op), Dm, replay=rp)
    job.lifted()
    if R is None:
        return job.solve()
    nd = c.native('dfa_algorithms')

    def mk_native(mv):
        js = view.to_json(mv)
        if op == 'make_total':
            return c.native('dfa').DFA(set(js['Q']), set(js['Sigma']), {(q, a): t for q, a, t in js['delta']}, js['q0'], set(js['F']), check_validity=False)
        return nat.mk_dfa(js, c.native('dfa'))
    is_nfa = op in ('reverse', 'no_prefix')
    job.differential(25, lambda mv: (nat.nfa_json_of if is_nfa else nat.dfa_json_of)(c.conc(R, mv)),
                     lambda mv: (nat.nfa_json_of if is_nfa else nat.dfa_json_of)(getattr(nd, 'dfa_' + op)(mk_native(mv))), 'dfa_' + op, replay=rp)
    rp = ('unary', {'D': view.to_json, 'op': op})
    rv = NfaView(R, None, syms) if is_nfa else DfaView(R, None, syms)
    if not is_nfa:
        job.oblige('result total', d.any_(d.and_(rv.qpres[s], d.any_(rv.dl.get((s, a), {}).values()) ^ 1) for s in rv.names for a in syms), replay=rp)
    m_res = 2 ** len(rv.names) if is_nfa else len(rv.names)
    if op == 'reverse':
        B = m_res + 2 ** n - 2
        if B > 24:
            B = 24
            job.result['notes'].append('word length capped at 24 (exact bound %d)' % (m_res + 2 ** n - 2))
    elif op == 'no_prefix':
        B = m_res + 2 * n - 2
    else:
        B = m_res + n + 1 - 2
    W = c.sym_positions(syms, B) if syms else []
    ar = rv.init()
    # reference state along the word
    run = view.init()
    seen_acc = FALSE          # some proper prefix was accepted (no_prefix)
    if op == 'no_extend':
        # can_ext[q]: an accepting state is reachable from q by >= 1 steps
        ce = {q: FALSE for q in names}
        for _ in range(n + 1):
            ce = {q: d.any_(d.and_(g, d.or_(view.F[t], ce[t])) for a in syms for t, g in view.dl.get((q, a), {}).items()) for q in names}
    for l in range(B + 1):
        if op == 'complement':
            ref = view.acc(run) ^ 1
        elif op in ('remove_unreachable_states', 'make_total'):
            ref = view.acc(run)
        elif op == 'no_prefix':
            ref = d.and_(view.acc(run), seen_acc ^ 1)
        elif op == 'no_extend':
            ref = d.any_(d.all_([run[q], view.F[q], ce[q] ^ 1]) for q in names)
        elif op == 'reverse':
            rr = view.init()
            for i in reversed(range(l)):
                rr = view.step(rr, W[i])
            ref = view.acc(rr)
        job.oblige('%s: language agrees with the definition on every word of length %d' % (op, l), d.iff(rv.acc(ar), ref) ^ 1, replay=rp)
        if not syms:
            break
        if l < B:
            seen_acc = d.or_(seen_acc, view.acc(run))
            run = view.step(run, W[l])
            ar = rv.step(ar, W[l])
    if op == 'remove_unreachable_states':
        reach = rv.reachable()
        job.oblige('every state of the result is reachable', d.any_(d.and_(rv.qpres[s], reach[s] ^ 1) for s in rv.names), replay=rp)
    job.oblige('argument unchanged', dfa_changed(view, DfaView(Dm, names, syms)), replay=rp)
    job.failures_as_obligations(replay=rp)
    return job.solve()


def sym_lang(words, tag):
    s = L.GSet()
    bits = {}
    for w in words:
        bits[w] = E.fresh('%s_%s' % (tag, w or 'eps'))
        s.m[w] = bits[w]
    return s, bits


def job_helpers(job, maxlen1, maxlen2):
    import gambatools.language_algorithms as LA
    from .oracles import set_eq_bad
    job.functions('language_algorithms', ['language_reverse', 'language_no_prefix', 'language_no_extend', 'concatenation', 'union',
                                          'intersection', 'symmetric_difference', 'words_of_length_n', 'words_up_to_n'])
    d = E.dag
    syms = ['a', 'b']
    U1 = c.words_upto(syms, maxlen1)
    U2 = c.words_upto(syms, maxlen2)
    L1, b1 = sym_lang(U1, 'L1')
    L2, b2 = sym_lang(U2, 'L2')
    job.inputs['L1'], job.inputs['L2'] = L.GSet._from(dict(L1.m)), L.GSet._from(dict(L2.m))
    dec1 = lambda mv: sorted(w for w in U1 if mv(b1[w]))
    dec2 = lambda mv: sorted(w for w in U2 if mv(b2[w]))
    res = {'language_reverse': LA.language_reverse(L1), 'language_no_prefix': LA.language_no_prefix(L1),
           'language_no_extend': LA.language_no_extend(L1), 'concatenation': LA.concatenation(L1, L2),
           'union': LA.union(L1, L2), 'intersection': LA.intersection(L1, L2), 'symmetric_difference': LA.symmetric_difference(L1, L2)}
    job.lifted()
    nl = c.native('language_algorithms')

    def nat_view(mv):
        A, B_ = set(dec1(mv)), set(dec2(mv))
        return {k: (getattr(nl, k)(A) if k.startswith('language') else getattr(nl, k)(A, B_)) for k in res}
    job.differential(40, lambda mv: {k: c.conc(v, mv) for k, v in res.items()}, nat_view, 'language helpers')
    m1 = lambda w: b1.get(w, FALSE)
    m2 = lambda w: b2.get(w, FALSE)
    ref = {
        'language_reverse': {w[::-1]: m1(w) for w in U1},
        'language_no_prefix': {w: d.and_(m1(w), d.any_(m1(w[:i]) for i in range(len(w))) ^ 1) for w in U1},
        'language_no_extend': {w: d.and_(m1(w), d.any_(m1(v) for v in U1 if v != w and v.startswith(w)) ^ 1) for w in U1},
        'union': {w: d.or_(m1(w), m2(w)) for w in set(U1) | set(U2)},
        'intersection': {w: d.and_(m1(w), m2(w)) for w in set(U1) | set(U2)},
        'symmetric_difference': {w: d.iff(m1(w), m2(w)) ^ 1 for w in set(U1) | set(U2)},
    }
    cat = {}
    for u in U1:
        for v in U2:
            cat[u + v] = d.or_(cat.get(u + v, FALSE), d.and_(m1(u), m2(v)))
    ref['concatenation'] = cat
    for k, v in res.items():
        job.oblige('%s computes the documented set' % k, set_eq_bad(v, ref[k]), replay=('helper', {'fn': k, 'L1': dec1, 'L2': dec2}))
    job.oblige('arguments unchanged', d.or_(set_eq_bad(L1, b1), set_eq_bad(L2, b2)), replay=('helper', {'fn': 'union', 'L1': dec1, 'L2': dec2}))
    job.failures_as_obligations(replay=('helper', {'fn': 'language_no_prefix', 'L1': dec1, 'L2': dec2}))
    # words_of_length_n / words_up_to_n over a symbolic sub-alphabet
    S, sb = sym_lang(['a', 'b', 'c'], 'Sig')
    job.inputs['Sigma'] = L.GSet._from(dict(S.m))
    decS = lambda mv: sorted(x for x in 'abc' if mv(sb[x]))
    for n in range(0, 3):
        r1 = LA.words_of_length_n(S, n)
        r2 = LA.words_up_to_n(S, n)
        allw = [''.join(t) for t in itertools.product('abc', repeat=n)]
        ref1 = {w: d.all_(sb[x] for x in w) for w in allw}
        ref2 = {w: d.all_(sb[x] for x in w) for l in range(n + 1) for w in (''.join(t) for t in itertools.product('abc', repeat=l))}
        job.oblige('words_of_length_n(Sigma, %d)' % n, set_eq_bad(r1, ref1), replay=('words', {'Sigma': decS, 'n': n}))
        job.oblige('words_up_to_n(Sigma, %d)' % n, set_eq_bad(r2, ref2), replay=('words', {'Sigma': decS, 'n': n}))
    return job.solve()


def jobs(tier):
    J = []

    def add(name, fn, timeout=None, **params):
        J.append({'name': name, 'fn': fn, 'params': params, **({'timeout': timeout} if timeout else {})})
    unary = ['complement', 'reverse', 'no_prefix', 'no_extend', 'remove_unreachable_states', 'make_total']
    if tier == 'quick':
        add('product_2x2_k2', job_product, n1=2, n2=2, k=2)
        add('product_3x2_k1', job_product, n1=3, n2=2, k=1)
        add('product_1x2_k0', job_product, n1=1, n2=2, k=0)
        # state names chosen so that careless product naming / parsing collides
        add('product_2x2_k1_names_underscore', job_product, n1=2, n2=2, k=1, names1=['p', 'p_0'], names2=['0_q', 'q'])
        add('product_2x2_k1_names_digits', job_product, n1=2, n2=2, k=1, names1=['1', '11'], names2=['1', '11'])
        add('product_2x2_k1_names_same', job_product, n1=2, n2=2, k=1, names1=['q0', 'q1'], names2=['q0', 'q1'])
        for op in unary:
            if op == 'reverse':
                add('reverse_n3_k1', job_unary, op=op, n=3, k=1)
                add('reverse_n2_k2', job_unary, op=op, n=2, k=2)
            else:
                add('%s_n3_k2' % op, job_unary, op=op, n=3, k=2)
            add('%s_n1_k1' % op, job_unary, op=op, n=1, k=1)
        add('helpers_2_2', job_helpers, maxlen1=2, maxlen2=2)
        add('helpers_3_1', job_helpers, maxlen1=3, maxlen2=1)
    else:
        # (3 x 3 states over two symbols ran 17 CPU-minutes without finishing: not registered)
        add('product_3x3_k1', job_product, n1=3, n2=3, k=1, timeout=1500)
        # (3 x 2 over two symbols and no_prefix on 4 states over two symbols: the queries for the longest words of the exact bound
        # hit the 120 s solver limit -> replaced by the next smaller instances)
        add('product_2x2_k2', job_product, n1=2, n2=2, k=2, timeout=3000)
        add('product_3x2_k1', job_product, n1=3, n2=2, k=1, timeout=3000)
        for op in unary:
            if op == 'reverse':
                add('reverse_n3_k2', job_unary, op=op, n=3, k=2, timeout=3000)
                add('reverse_n4_k1', job_unary, op=op, n=4, k=1, timeout=3000)
            elif op == 'no_prefix':
                add('no_prefix_n4_k1', job_unary, op=op, n=4, k=1, timeout=3000)
                add('no_prefix_n3_k2', job_unary, op=op, n=3, k=2, timeout=3000)
            else:
                add('%s_n4_k2' % op, job_unary, op=op, n=4, k=2, timeout=3000)
        add('helpers_3_2', job_helpers, maxlen1=3, maxlen2=2, timeout=3000)
    return J


# ------------------------------------------------------------------ native replay
def _lang_dfa(js, n):
    return {w for w in nat.words_upto(js['Sigma'], n) if nat.ref_dfa_accepts(js, w)}


def _replay_product(rp):
    import gambatools.dfa_algorithms as DA
    A, B = nat.mk_dfa(rp['D1']), nat.mk_dfa(rp['D2'])
    before = (nat.dfa_json_of(A), nat.dfa_json_of(B))
    n = 2 * len(A.Q) * len(B.Q)
    L1, L2 = _lang_dfa(rp['D1'], n), _lang_dfa(rp['D2'], n)
    problems = []
    for op, exp in (('union', L1 | L2), ('intersection', L1 & L2), ('symmetric_difference', L1 ^ L2)):
        try:
            R = getattr(DA, 'dfa_' + op)(A, B)
            got = _lang_dfa(nat.dfa_json_of(R), n)
            if got != exp:
                problems.append('%s: differs on %r' % (op, sorted(got ^ exp, key=lambda w: (len(w), w))[:3]))
        except Exception as e:
            problems.append('%s raised %r' % (op, e))
    if (nat.dfa_json_of(A), nat.dfa_json_of(B)) != before:
        problems.append('arguments modified')
    return bool(problems), {'problems': problems}


def _ref_partial_accepts(js, w):
    delta = {(q, a): t for q, a, t in js['delta']}
    q = js['q0']
    for a in w:
        if (q, a) not in delta:
            return False
        q = delta[(q, a)]
    return q in set(js['F'])


def _replay_unary(rp):
    import gambatools.dfa_algorithms as DA
    import gambatools.dfa as dfa_mod
    js, op = rp['D'], rp['op']
    if op == 'make_total':
        Dn = dfa_mod.DFA(set(js['Q']), set(js['Sigma']), {(q, a): t for q, a, t in js['delta']}, js['q0'], set(js['F']), check_validity=False)
    else:
        Dn = nat.mk_dfa(js)
    before = nat.dfa_json_of(Dn)
    n = 2 ** (len(js['Q']) + 1) + 2 if op == 'reverse' else 3 * len(js['Q']) + 3
    n = min(n, 12)
    words = nat.words_upto(js['Sigma'], n)
    Lang = {w for w in words if _ref_partial_accepts(js, w)}
    if op == 'complement':
        exp = set(words) - Lang
    elif op == 'reverse':
        exp = {w[::-1] for w in Lang}
    elif op == 'no_prefix':
        exp = {w for w in Lang if not any(w[:i] in Lang for i in range(len(w)))}
    elif op == 'no_extend':
        # proper extensions of any length: decide through reachability on the argument
        delta = {(q, a): t for q, a, t in js['delta']}

        def can_extend(q):
            seen, todo = set(), [q]
            while todo:
                x = todo.pop()
                for a in js['Sigma']:
                    t = delta[(x, a)]
                    if t in set(js['F']):
                        return True
                    if t not in seen:
                        seen.add(t)
                        todo.append(t)
            return False

        def state_of(w):
            q = js['q0']
            for a in w:
                q = delta[(q, a)]
            return q
        exp = {w for w in Lang if not can_extend(state_of(w))}
    else:
        exp = Lang
    problems = []
    try:
        R = getattr(DA, 'dfa_' + op)(Dn)
    except RecursionError as e:
        return True, {'library raised': 'RecursionError'}
    except Exception as e:
        return True, {'library raised': repr(e)}
    if op in ('reverse', 'no_prefix'):
        rj = nat.nfa_json_of(R)
        got = {w for w in words if nat.ref_nfa_accepts(rj, w)}
    else:
        rj = nat.dfa_json_of(R)
        try:
            nat.mk_dfa(rj)
            got = {w for w in words if nat.ref_dfa_accepts(rj, w)}
        except Exception as e:
            return True, {'result invalid': repr(e)}
        if op == 'remove_unreachable_states':
            if len(R.Q) != len({q for q in R.Q if any(True for _ in [0])}) or not set(R.Q) <= _reach(rj):
                problems.append('unreachable states left')
    if got != exp:
        problems.append('language differs on %r' % sorted(got ^ exp, key=lambda w: (len(w), w))[:3])
    if nat.dfa_json_of(Dn) != before:
        problems.append('argument modified')
    return bool(problems), {'problems': problems}


def _reach(js):
    delta = {(q, a): t for q, a, t in js['delta']}
    seen, todo = {js['q0']}, [js['q0']]
    while todo:
        q = todo.pop()
        for a in js['Sigma']:
            t = delta[(q, a)]
            if t not in seen:
                seen.add(t)
                todo.append(t)
    return seen


def _replay_helper(rp):
    import gambatools.language_algorithms as LA
    A, B = set(rp['L1']), set(rp['L2'])
    A0, B0 = set(A), set(B)
    exp = {
        'language_reverse': {w[::-1] for w in A},
        'language_no_prefix': {w for w in A if not any(w[:i] in A for i in range(len(w)))},
        'language_no_extend': {w for w in A if not any(v != w and v.startswith(w) for v in A)},
        'concatenation': {u + v for u in A for v in B}, 'union': A | B, 'intersection': A & B, 'symmetric_difference': A ^ B,
    }
    bad = {}
    for k, e in exp.items():
        try:
            got = getattr(LA, k)(A) if k.startswith('language') else getattr(LA, k)(A, B)
        except Exception as ex:
            bad[k] = repr(ex)
            continue
        if got != e:
            bad[k] = {'library': sorted(got), 'expected': sorted(e)}
    if A != A0 or B != B0:
        bad['arguments'] = 'modified'
    return bool(bad), bad


def _replay_words(rp):
    import gambatools.language_algorithms as LA
    S, n = set(rp['Sigma']), rp['n']
    e1 = {''.join(t) for t in itertools.product(sorted(S), repeat=n)}
    e2 = {''.join(t) for l in range(n + 1) for t in itertools.product(sorted(S), repeat=l)}
    g1, g2 = LA.words_of_length_n(S, n), LA.words_up_to_n(S, n)
    return g1 != e1 or g2 != e2, {'words_of_length_n': sorted(g1), 'words_up_to_n': sorted(g2)}


REPLAY = {'product': _replay_product, 'unary': _replay_unary, 'helper': _replay_helper, 'words': _replay_words}
