"""C07 -- CYK membership and the CYK table are exact for arbitrary grammars."""
import itertools

from . import common as c
from . import nat
from .common import E, L, TRUE, FALSE

META = {
    'bounds': {'quick': 'CNF: all 2^19 grammars over variables S, A, B and terminals a, b (every rule A -> BC without S on the right, '
                        'A -> a, S -> epsilon present or not) x all words of length <= 3, every table cell; multi-character '
                        'variable names family; general grammars: 2 variables with right-hand sides from a 9-element family '
                        '(epsilon, unit, cyclic, recursive, long rules), words <= 2, membership through the on-the-fly CNF conversion',
               'thorough': 'CNF words <= 4; general grammars 3 variables / 12 right-hand sides, words <= 3'},
    'outside': 'grammars with more variables / rules than the candidate families; longer words',
    'oracle': 'derivability table X =>* w[i..j] as a least fixpoint over spans of increasing length (|V| rounds per length, so '
              'epsilon rules and unit chains are covered), written over the rule-presence bits',
    'assumptions': ['grammar valid (CFG.check_validity)', 'terminals are single lower-case characters'],
}


def cnf_candidates(variables, terminals, start, pairs=None):
    cands = []
    nonstart = [v for v in variables if v != start]
    for X in variables:
        for B in nonstart:
            for C in nonstart:
                if pairs is not None and [B, C] not in pairs:
                    continue
                cands.append((X, (B, C)))
        for a in terminals:
            cands.append((X, (a,)))
    cands.append((start, ()))
    return cands


def job_cyk(job, variables, terminals, maxlen, pairs=None):
    from gambatools.cfg_algorithms import cfg_cyk_matrix, cfg_accepts_word
    from .cfg_sym import sym_cfg, entries_json, GrammarSem
    job.functions('cfg_algorithms', ['cfg_cyk_matrix', 'cfg_accepts_word'])
    job.functions('cfg', ['CFG', 'Alternative', 'Rule'])
    d = E.dag
    start = variables[0]
    G, entries = sym_cfg(variables, terminals, cnf_candidates(variables, terminals, start, pairs), start)
    dec = entries_json(entries, variables, terminals, start)
    job.inputs['G'] = G
    job.decoders['G'] = dec
    words = c.words_upto(terminals, maxlen)
    acc = {}
    tabs = {}
    for w in words:
        acc[w] = job.call(cfg_accepts_word, G, w, replay=('cyk', {'G': dec, 'word': w}))
        if w:
            tabs[w] = job.call(cfg_cyk_matrix, G, w, replay=('cyk', {'G': dec, 'word': w}))
    job.lifted()
    ncfg = c.native('cfg_algorithms')

    def nat_view(mv):
        Gn = nat.mk_cfg(dec(mv), c.native('cfg'))
        return ({w: ncfg.cfg_accepts_word(Gn, w) for w in words},
                {w: {k: set(map(str, v)) for k, v in ncfg.cfg_cyk_matrix(Gn, w).items() if v} for w in tabs})
    job.differential(20, lambda mv: ({w: c.conc(acc[w], mv) for w in words},
                                     {w: {k: set(map(str, v)) for k, v in c.conc(tabs[w], mv).items() if v} for w in tabs}), nat_view, 'cyk')
    for w in words:
        sem = GrammarSem(entries, variables, w)
        rp = ('cyk', {'G': dec, 'word': w})
        if acc[w] is not None:
            job.oblige('cfg_accepts_word(G, %r) iff S derives it' % w, d.iff(E.lit(acc[w]), sem.derives(start)) ^ 1, replay=rp)
        if w and tabs.get(w) is not None:
            X = tabs[w]
            n = len(w)
            items = {k: v for k, v in L.dict_items(X).items()} if hasattr(L, 'dict_items') else None
            from .oracles import dict_items
            items = dict_items(X)
            for i in range(n):
                for j in range(i, n):
                    pres, val = items.get((i, j), (FALSE, L.GSet()))
                    sv = L._setview(val)
                    for V_ in variables:
                        member = d.and_(pres, d.any_(g for e, g in sv.m.items() if str(e) == V_ and type(e).__name__ == 'Variable'))
                        job.oblige('cell (%d,%d) of the CYK table of %r contains %s iff %s derives the subword' % (i, j, w, V_, V_),
                                   d.iff(member, sem.derives(V_, i, j + 1)) ^ 1, replay=rp)
                    junk = d.and_(pres, d.any_(g for e, g in sv.m.items() if str(e) not in variables))
                    job.oblige('cell (%d,%d) of the CYK table of %r holds only variables of G' % (i, j, w), junk, replay=rp)
            for key, (pres, val) in items.items():
                i, j = key
                if not (0 <= i <= j < n):
                    job.oblige('no content outside the triangle (cell %r of %r)' % (key, w), d.and_(pres, L._setview(val).nonempty()), replay=rp)
    job.failures_as_obligations(replay=('cyk', {'G': dec, 'word': words[-1]}))
    sem = GrammarSem(entries, variables, words[-1])
    job.must_reach('some grammar derives the longest word', sem.derives(start))
    return job.solve()


FAMILIES = {
    # (variables, fixed rules, symbolic candidate rules); at most 10 symbolic rules per family so that the
    # encoder's exact pruning stays available (every subset of the candidates is one grammar)
    'eps_unit': (['S', 'A'], [], [('S', 'A'), ('S', 'aA'), ('S', 'AA'), ('S', ''), ('A', ''), ('A', 'a'), ('A', 'S'), ('A', 'Ab'), ('A', 'A')]),
    'long': (['S', 'A'], [], [('S', 'aSb'), ('S', 'AbA'), ('S', 'AAA'), ('S', 'ab'), ('S', 'SS'), ('A', ''), ('A', 'a'), ('A', 'A'), ('A', 'bS')]),
    'three_vars': (['S', 'A', 'B'], [('S', 'AB')], [('S', 'b'), ('A', ''), ('A', 'a'), ('A', 'B'), ('A', 'aA'), ('B', ''), ('B', 'b'), ('B', 'A'), ('B', 'SS')]),
    'useless_cyclic': (['S', 'A', 'B'], [('S', 'aS')], [('S', ''), ('S', 'A'), ('A', 'B'), ('B', 'A'), ('B', 'b'), ('A', 'AA'), ('B', 'Bb'), ('S', 'BS')]),
    'indirect_nullable': (['S', 'T', 'U'], [], [('S', 'T'), ('S', 'TU'), ('T', 'U'), ('T', 'a'), ('U', ''), ('U', 'b'), ('S', 'aTb'), ('U', 'UU')]),
}


def job_general(job, family, maxlen, terminals=('a', 'b'), nsym=None, history=False):
    from gambatools.cfg_algorithms import cfg_accepts_word
    from .cfg_sym import sym_cfg, entries_json, GrammarSem
    job.functions('cfg_algorithms', ['cfg_accepts_word', 'cfg_to_chomsky', 'cfg_cyk_matrix', 'cfg_remove_epsilon_rules_in_place',
                                     'cfg_eliminate_unit_rules_in_place', 'cfg_make_rules_of_length_two_in_place',
                                     'cfg_eliminate_terminals_in_place', 'cfg_add_new_start_variable_in_place'])
    d = E.dag
    terminals = list(terminals)
    variables, fixed, symbolic = FAMILIES[family]
    symbolic = symbolic[:nsym] if nsym else symbolic
    start = variables[0]
    cands = [(X, tuple(rhs)) for X, rhs in fixed] + [(X, tuple(rhs)) for X, rhs in symbolic]
    G, entries = sym_cfg(variables, terminals, cands, start, fixed=[(X, tuple(rhs)) for X, rhs in fixed])
    dec = entries_json(entries, variables, terminals, start)
    job.inputs['G'] = G
    job.decoders['G'] = dec
    words = c.words_upto(terminals, maxlen)
    E.while_bound = 40
    acc = {}
    for w in words:
        acc[w] = job.call(cfg_accepts_word, G, w, replay=('cyk', {'G': dec, 'word': w}))
    acc2 = {}
    if history:
        # call history: the same rules with another start variable, asked right after the first grammar (hidden state that is
        # keyed on the rules alone would answer with the first grammar's language), then the first grammar again
        import gambatools.cfg as C
        G2 = C.CFG(G.V, G.Sigma, G.R, C.Variable(variables[1]))
        dec2 = lambda mv: dict(dec(mv), S=variables[1])
        for w in words:
            acc2[(1, w)] = job.call(cfg_accepts_word, G2, w, replay=('cyk_history', {'G': dec, 'second_start': variables[1], 'word': w}))
        for w in words:
            acc2[(0, w)] = job.call(cfg_accepts_word, G, w, replay=('cyk_history', {'G': dec, 'second_start': variables[1], 'word': w}))
    job.lifted()
    for (which, w), r in acc2.items():
        if r is None:
            continue
        sem = GrammarSem(entries, variables, w)
        job.oblige('after other calls: cfg_accepts_word(G with start %s, %r) iff that start variable derives it' % (variables[which], w),
                   d.iff(E.lit(r), sem.derives(variables[which])) ^ 1, replay=('cyk_history', {'G': dec, 'second_start': variables[1], 'word': w}))
    ncfg = c.native('cfg_algorithms')
    job.differential(15, lambda mv: {w: c.conc(acc[w], mv) for w in words},
                     lambda mv: (lambda Gn: {w: ncfg.cfg_accepts_word(Gn, w) for w in words})(nat.mk_cfg(dec(mv), c.native('cfg'))), 'cfg_accepts_word', replay=('cyk', {'G': dec, 'word': words[-1]}))
    for w in words:
        if acc[w] is None:
            continue
        sem = GrammarSem(entries, variables, w)
        job.oblige('cfg_accepts_word(G, %r) iff S derives it' % w, d.iff(E.lit(acc[w]), sem.derives(start)) ^ 1, replay=('cyk', {'G': dec, 'word': w}))
    # the argument grammar is not modified by the membership test
    from .cfg_sym import read_cfg
    after = read_cfg(G)
    before = {(X, rhs): bit for bit, X, rhs in entries}
    aft = {}
    for lit, X, rhs, kinds in after:
        aft[(X, rhs)] = d.or_(aft.get((X, rhs), FALSE), lit)
    job.oblige('argument grammar unchanged', d.any_(d.iff(before.get(k, FALSE), aft.get(k, FALSE)) ^ 1 for k in set(before) | set(aft)),
               replay=('cyk', {'G': dec, 'word': words[-1]}))
    job.failures_as_obligations(replay=('cyk', {'G': dec, 'word': words[-1]}))
    return job.solve()


def job_many_vars(job, small=False):
    """25 declared variables, so that the conversion inside cfg_accepts_word has to invent names beyond the
    alphabet (the >= 26 variables branch of cfg_fresh_variable); mostly concrete, a few rules symbolic"""
    from gambatools.cfg_algorithms import cfg_accepts_word
    from .cfg_sym import sym_cfg, entries_json, GrammarSem
    job.functions('cfg_algorithms', ['cfg_accepts_word', 'cfg_fresh_variable', 'cfg_make_rules_of_length_two_in_place', 'cfg_eliminate_terminals_in_place'])
    d = E.dag
    variables = list('SABCDEFGHIJKLMNOPQRTUVWXY')
    terminals = ['a', 'b', 'c', 'd']
    fixed = [('K', 'aLbLc'), ('L', 'd')]
    symbolic = [('S', 'K'), ('S', 'KK'), ('K', 'aLbLcL'), ('L', 'dd'), ('L', ''), ('S', 'abcd')]
    if small:
        fixed = fixed + [('S', 'K')]
        symbolic = [('K', 'aLbLcL'), ('L', 'dd'), ('L', ''), ('S', 'KK')]
    cands = [(X, tuple(r)) for X, r in fixed + symbolic]
    G, entries = sym_cfg(variables, terminals, cands, 'S', fixed=[(X, tuple(r)) for X, r in fixed])
    dec = entries_json(entries, variables, terminals, 'S')
    job.inputs['G'] = G
    job.decoders['G'] = dec
    words = ['', 'abc', 'adbdc', 'addbdc', 'adbddc', 'adbc', 'abdc', 'abcd', 'adbdcd', 'adbdcadbdc']
    if small:
        words = ['abc', 'adbdc', 'addbdc', 'adbdcd', 'adbc']
    E.while_bound = 60
    acc = {w: job.call(cfg_accepts_word, G, w, replay=('cyk', {'G': dec, 'word': w, 'words': words})) for w in words}
    job.lifted()
    for w in words:
        if acc[w] is None:
            continue
        sem = GrammarSem(entries, variables, w)
        job.oblige('cfg_accepts_word(G, %r) iff S derives it' % w, d.iff(E.lit(acc[w]), sem.derives('S')) ^ 1,
                   replay=('cyk', {'G': dec, 'word': w, 'words': words}))
    job.failures_as_obligations(replay=('cyk', {'G': dec, 'word': words[-1], 'words': words}))
    return job.solve()


def jobs(tier):
    J = []

    def add(name, fn, timeout=None, **params):
        J.append({'name': name, 'fn': fn, 'params': params, **({'timeout': timeout} if timeout else {})})
    if tier == 'quick':
        add('cyk_cnf_3vars_L3', job_cyk, variables=['S', 'A', 'B'], terminals=['a', 'b'], maxlen=3)
        add('cyk_cnf_multichar_names', job_cyk, variables=['S', 'A', 'AB', 'B'], terminals=['a', 'b'], maxlen=2)
        add('many_variables_small', job_many_vars, small=True, timeout=600)
        add('cyk_cnf_ambiguous_concatenation', job_cyk, variables=['S', 'A', 'AB', 'BC', 'C'], terminals=['a', 'b'], maxlen=2,
            pairs=[['A', 'BC'], ['AB', 'C'], ['A', 'C'], ['C', 'C']])
        for fam in FAMILIES:
            add('general_%s_L2' % fam, job_general, family=fam, maxlen=2, nsym=4 if fam == 'long' else 6, timeout=600)
        add('general_history_eps_unit', job_general, family='eps_unit', maxlen=2, nsym=5, history=True, timeout=600)
        add('general_history_three_vars', job_general, family='three_vars', maxlen=2, nsym=5, history=True, timeout=600)
    else:
        add('cyk_cnf_3vars_L4', job_cyk, variables=['S', 'A', 'B'], terminals=['a', 'b'], maxlen=4, timeout=3000)
        add('cyk_cnf_multichar_names_L3', job_cyk, variables=['S', 'A', 'AB', 'B'], terminals=['a', 'b'], maxlen=3, timeout=3000)
        add('many_variables', job_many_vars, timeout=3000)
        for fam in FAMILIES:
            add('general_%s_L2_full' % fam, job_general, family=fam, maxlen=2, timeout=3000)
            add('general_%s_L3' % fam, job_general, family=fam, maxlen=3, nsym=6, timeout=3000)
    return J


def _replay_cyk(rp):
    from gambatools.cfg_algorithms import cfg_accepts_word, cfg_cyk_matrix
    js = rp['G']
    G = nat.mk_cfg(js)
    before = nat.cfg_json_of(G)
    problems = []
    for w in (rp.get('words') or nat.words_upto(js['Sigma'], max(len(rp['word']), 1))):
        T = nat.ref_cfg_table(js, w)
        try:
            got = cfg_accepts_word(G, w)
        except Exception as e:
            problems.append('cfg_accepts_word(%r) raised %r' % (w, e))
            continue
        if got is not ((js['S'], 0, len(w)) in T):
            problems.append('cfg_accepts_word(%r) = %r, reference %r' % (w, got, (js['S'], 0, len(w)) in T))
        if w and G.is_chomsky():
            X = cfg_cyk_matrix(G, w)
            for i in range(len(w)):
                for j in range(i, len(w)):
                    exp = {v for v in js['V'] if (v, i, j + 1) in T}
                    if set(map(str, X[i, j])) != exp:
                        problems.append('cell (%d,%d) of %r: %s, reference %s' % (i, j, w, sorted(map(str, X[i, j])), sorted(exp)))
    if nat.cfg_json_of(G) != before:
        problems.append('argument grammar modified')
    return bool(problems), {'grammar': str(nat.mk_cfg(js)), 'problems': problems[:4]}


def _replay_cyk_history(rp):
    """the three-call history of the job in one native process: G (start S), same rules with the second start variable, G again"""
    from gambatools.cfg_algorithms import cfg_accepts_word
    js = rp['G']
    js2 = dict(js, S=rp['second_start'])
    words = nat.words_upto(js['Sigma'], max(len(rp['word']), 1))
    problems = []
    for j in (js, js2, js):
        G = nat.mk_cfg(j)
        for w in words:
            try:
                got = cfg_accepts_word(G, w)
            except Exception as e:
                problems.append('start %s: cfg_accepts_word(%r) raised %r' % (j['S'], w, e))
                continue
            ref = nat.ref_cfg_accepts(j, w)
            if got is not ref:
                problems.append('start %s (after earlier calls): cfg_accepts_word(%r) = %r, reference %r' % (j['S'], w, got, ref))
    return bool(problems), {'problems': problems[:6]}


REPLAY = {'cyk_history': _replay_cyk_history, 'cyk': _replay_cyk}
