"""C09 -- PDA acceptance: sound always, complete below the epsilon-closure limit."""
import itertools
import random

from . import common as c
from . import nat
from .common import E, L, TRUE, FALSE

META = {
    'bounds': {'quick': 'PDAs with states p, q, input alphabet {a}, stack alphabet {x} (and {x, y}): a few fixed transitions plus 7-8 '
                        'symbolic ones per family (hand-made families with stack-growing epsilon cycles, replace moves, pops on '
                        'the empty stack, two applicable transitions on one symbol; plus seeded random families), accepting set '
                        'symbolic; iteration limit 1, 2, 3, 5 (one job each); words of length <= 2',
               'thorough': 'more random families, limit up to 8, words <= 3, three states'},
    'outside': 'PDAs outside the families, longer words, larger limits (the real default 1000 is exercised only through the '
               'closed-form argument that the limit is read per call)',
    'oracle': 'configuration semantics over the transition bits: sets of (state, stack) explored level by level; soundness '
              'against everything reachable with at most `limit` epsilon moves per phase (a superset of what the library can '
              'explore), completeness under the premise that every closure has converged with at most `limit` configurations',
    'assumptions': ['PDA valid (PDA._check_validity)', 'the iteration limit is set through GambaTools.pda_epsilon_closure_max_iterations before the call'],
}

STATES = ['p', 'q']


def all_transitions(states, sigma, gamma, eps):
    return [(p, a, u, q, v) for p in states for a in list(sigma) + [eps] for u in list(gamma) + [eps] for q in states for v in list(gamma) + [eps]]


def family(name, eps, seed=0, nsym=7, gamma=('x',)):
    e = eps
    if name == 'grow_cycle':
        fixed = [('p', 'a', 'x', 'q', e)]
        sym = [('p', e, e, 'p', 'x'), ('p', 'a', e, 'q', e), ('q', e, 'x', 'q', e), ('q', 'a', 'x', 'q', e), ('p', e, 'x', 'q', e),
               ('q', e, e, 'p', e), ('q', 'a', e, 'p', 'x'), ('p', 'a', 'x', 'p', 'x')]
    elif name == 'replace_and_pop':
        fixed = [('p', 'a', e, 'q', 'x')]
        sym = [('p', 'a', 'x', 'q', e), ('q', 'a', 'x', 'q', 'x'), ('q', e, 'x', 'p', e), ('p', e, e, 'q', e), ('q', 'a', e, 'q', e),
               ('q', e, e, 'q', 'x'), ('p', 'a', 'x', 'p', 'x'), ('q', 'a', 'x', 'p', e)]
    elif name == 'replace_only':
        gamma = ('x', 'y')
        fixed = [('p', 'a', e, 'q', 'x')]
        sym = [('q', 'a', 'x', 'q', 'y'), ('q', e, 'x', 'p', 'y'), ('q', 'a', 'y', 'q', e), ('q', e, 'y', 'q', 'x'), ('p', e, 'y', 'q', 'y'),
               ('p', 'a', 'y', 'p', 'x')]
    elif name == 'two_stack_symbols':
        gamma = ('x', 'y')
        fixed = [('p', 'a', e, 'q', 'x')]
        sym = [('p', 'a', e, 'q', 'y'), ('q', 'a', 'x', 'q', e), ('q', 'a', 'y', 'q', 'y'), ('q', e, 'y', 'p', 'x'), ('q', e, 'x', 'p', e),
               ('p', e, e, 'p', 'y'), ('q', 'a', 'x', 'p', 'y'), ('p', 'a', 'y', 'q', e)]
    elif name == 'multichar_stack':
        # stack symbols of several characters next to their own pieces: the stacks [ab] and [a, b] must stay different
        gamma = ('a', 'b', 'ab')
        fixed = [('p', 'a', e, 'q', 'ab')]
        sym = [('q', e, 'ab', 'p', e), ('q', 'a', 'ab', 'q', 'a'), ('q', 'a', e, 'q', 'b'), ('p', 'a', e, 'p', 'a'), ('p', e, e, 'q', 'b'),
               ('q', 'a', 'b', 'q', e), ('q', e, 'a', 'p', e), ('p', e, 'a', 'q', 'ab')]
    elif name == 'percent_stack':
        # '%' (the comment character of the text format) as a stack symbol
        gamma = ('%', 'x')
        fixed = [('p', 'a', e, 'q', '%')]
        sym = [('q', 'a', '%', 'q', e), ('q', e, '%', 'p', 'x'), ('p', e, e, 'p', '%'), ('q', 'a', 'x', 'q', '%'), ('p', 'a', '%', 'p', e),
               ('q', e, 'x', 'q', e)]
    else:
        rng = random.Random('%s-%d' % (name, seed))
        allt = all_transitions(STATES, ['a'], list(gamma), e)
        pick = rng.sample(allt, nsym + 1)
        fixed, sym = pick[:1], pick[1:]
    return list(gamma), fixed, sym[:nsym]


def set_limit(limit):
    from gambatools.global_settings import GambaTools
    GambaTools.pda_epsilon_closure_max_iterations = limit


def job_accepts(job, fam, limit, maxlen, eps='_', seed=0, nsym=7):
    from gambatools.pda_algorithms import pda_accepts_word
    from .pda_sym import sym_pda, pda_json, RefPDA
    from .harness_util import count_map
    job.functions('pda_algorithms', ['pda_accepts_word', 'pda_epsilon_closure', 'pda_do_transition', 'pda_can_pop_push', 'pda_pop_push', 'PDAState'])
    job.functions('global_settings', ['GambaTools'])
    d = E.dag
    gamma, fixed, sym = family(fam, eps, seed, nsym)
    sigma = ['a']
    P, trans, fbits = sym_pda(STATES, sigma, gamma, eps, fixed, sym)
    dec = pda_json(STATES, sigma, gamma, eps, trans, fbits, 'p')
    job.inputs['P'] = P
    job.decoders['P'] = dec
    set_limit(limit)
    E.while_bound = limit + 2
    words = c.words_upto(sigma, maxlen)
    res = {}
    for w in words:
        res[w] = job.call(pda_accepts_word, P, w, replay=('accepts', {'P': dec, 'word': w, 'limit': limit}))
    job.lifted()
    npda = c.native('pda_algorithms')

    def nat_view(mv):
        c.native('global_settings').GambaTools.pda_epsilon_closure_max_iterations = limit
        Pn = nat.mk_pda(dec(mv), c.native('pda'))
        return {w: npda.pda_accepts_word(Pn, w) for w in words}
    ref = RefPDA(trans, fbits, {'p': TRUE}, eps, maxdepth=(limit + 2) * (maxlen + 1) + maxlen + 1)
    premises = {}
    for w in words:
        premises[w] = FALSE
        if res[w] is None:
            continue
        rp = ('accepts', {'P': dec, 'word': w, 'limit': limit})
        # (a) soundness: everything the library can reach lies within `limit` epsilon moves per phase
        cur, _ = ref.closure(ref.initial(), limit)
        for a in w:
            cur, _ = ref.closure(ref.moves(cur, a), limit)
        job.oblige('soundness: pda_accepts_word(P, %r) implies an accepting computation exists' % w,
                   d.and_(E.lit(res[w]), ref.accepts_lit(cur) ^ 1), replay=rp)
        # (b) completeness below the limit
        premise = TRUE
        cur, frontier = ref.closure(ref.initial(), limit + 1)
        sizes_ok = lambda conf: d.any_(g for k, g in count_map([g for g in conf.values() if g != FALSE]).items() if k <= limit)
        premise = d.all_([premise, d.any_(frontier.values()) ^ 1, sizes_ok(cur)])
        for a in w:
            cur, frontier = ref.closure(ref.moves(cur, a), limit + 1)
            premise = d.all_([premise, d.any_(frontier.values()) ^ 1, sizes_ok(cur)])
        premises[w] = premise
        job.oblige('completeness: every closure of %r has at most %d configurations and an accepting computation exists, then True' % (w, limit),
                   d.all_([premise, ref.accepts_lit(cur), E.lit(res[w]) ^ 1]), replay=rp)
        if w == words[-1]:
            job.must_reach('premise of completeness satisfiable with acceptance', d.and_(premise, ref.accepts_lit(cur)))
    # differential validation only where the result cannot depend on the pop order (all closures converged below the limit)
    job.differential(20, lambda mv: {w: (c.conc(res[w], mv) if mv(premises[w]) else None) for w in words if res[w] is not None},
                     lambda mv: {w: (v if mv(premises[w]) else None) for w, v in nat_view(mv).items() if res[w] is not None}, 'pda_accepts_word')
    job.oblige('reference stack bound sufficient', ref.overflow, replay=None, demanded=False)
    job.failures_as_obligations(replay=('accepts', {'P': dec, 'word': words[-1], 'limit': limit}))
    return job.solve()


def job_limit_is_read_per_call(job, eps='_'):
    """the configured limit must be honoured whatever value it is set to *after import*: two calls on the same
    PDA with different settings (chain of epsilon moves of symbolic length)"""
    # the setting has the value 1 while the library module is imported and is changed afterwards
    import sys as _sys
    assert 'gambatools.pda_algorithms' not in _sys.modules
    set_limit(1)
    from gambatools.pda_algorithms import pda_accepts_word
    from .pda_sym import sym_pda, pda_json, RefPDA
    job.functions('pda_algorithms', ['pda_accepts_word', 'pda_epsilon_closure'])
    d = E.dag
    n = 5
    states = ['s%d' % i for i in range(n)]
    fixed = [('s0', 'a', eps, 's1', eps)]
    sym = [(states[i], eps, eps, states[i + 1], eps) for i in range(1, n - 1)]
    P, trans, fbits = sym_pda(states, ['a'], ['x'], eps, fixed, sym, finals_symbolic=False, finals=[states[-1]])
    dec = pda_json(states, ['a'], ['x'], eps, trans, fbits, 's0')
    job.inputs['P'] = P
    job.decoders['P'] = dec
    E.while_bound = 12
    out = {}
    for limit in (1, 2, 8, 2, 8):
        set_limit(limit)
        out.setdefault(limit, []).append(job.call(pda_accepts_word, P, 'a', replay=('limit', {'P': dec})))
    job.lifted()
    chain = d.all_(bit for bit, t in trans[1:])
    rp = ('limit', {'P': dec})
    for r in out[8]:
        if r is not None:
            job.oblige('with limit 8 the 4-state epsilon chain is followed to the accepting state', d.and_(chain, E.lit(r) ^ 1), replay=rp)
    return job.solve()


def jobs(tier):
    J = []

    def add(name, fn, timeout=None, **params):
        J.append({'name': name, 'fn': fn, 'params': params, **({'timeout': timeout} if timeout else {})})
    if tier == 'quick':
        for fam in ('grow_cycle', 'replace_and_pop', 'two_stack_symbols'):
            for limit in (1, 2, 3):
                add('%s_limit%d' % (fam, limit), job_accepts, fam=fam, limit=limit, maxlen=2, timeout=600,
                    nsym=5 if (fam == 'two_stack_symbols' and limit == 3) else 7)
        add('grow_cycle_limit5_eps_empty', job_accepts, fam='grow_cycle', limit=5, maxlen=1, eps='', timeout=600)
        for seed in range(4):
            add('random%d_limit2' % seed, job_accepts, fam='random', seed=seed, limit=2, maxlen=2, timeout=600)
            add('random%d_limit3' % seed, job_accepts, fam='random', seed=seed, limit=3, maxlen=2, timeout=600)
        add('multichar_stack_limit3', job_accepts, fam='multichar_stack', limit=3, maxlen=3, nsym=4, timeout=600)
        add('limit_read_per_call', job_limit_is_read_per_call)
    else:
        for fam in ('grow_cycle', 'replace_and_pop', 'two_stack_symbols'):
            for limit in (1, 2, 3, 5, 8):
                add('%s_limit%d' % (fam, limit), job_accepts, fam=fam, limit=limit, maxlen=3, nsym=8, timeout=3000)
        for seed in range(12):
            for limit in (2, 4):
                add('random%d_limit%d' % (seed, limit), job_accepts, fam='random', seed=seed, limit=limit, maxlen=3, nsym=8, timeout=3000)
        add('limit_read_per_call', job_limit_is_read_per_call)
    return J


# ------------------------------------------------------------------ native replay
def _replay_accepts(rp):
    from gambatools.global_settings import GambaTools
    from gambatools.pda_algorithms import pda_accepts_word
    js = rp['P']
    GambaTools.pda_epsilon_closure_max_iterations = rp['limit']
    P = nat.mk_pda(js)
    problems = []
    for w in nat.words_upto(js['Sigma'], len(rp['word'])):
        try:
            got = pda_accepts_word(P, w)
        except Exception as e:
            problems.append('%r raised %r' % (w, e))
            continue
        acc, complete, sizes = nat.ref_pda_run(js, w)
        if got and complete and not acc:
            problems.append('unsound: %r accepted, no accepting computation exists' % w)
        if got and not complete:
            # decide soundness by bounded search as deep as the library can have looked
            acc2, _, _ = nat.ref_pda_run(js, w, max_confs=50000)
            if not acc2:
                problems.append('unsound: %r accepted, no accepting computation within reach' % w)
        if complete and acc and max(sizes) <= rp['limit'] and not got:
            problems.append('incomplete: %r has an accepting computation, closures %s <= limit %d, answer False' % (w, sizes, rp['limit']))
    return bool(problems), {'problems': problems[:4]}


def _replay_limit(rp):
    from gambatools.global_settings import GambaTools
    GambaTools.pda_epsilon_closure_max_iterations = 1          # value at import time of the algorithms module
    from gambatools.pda_algorithms import pda_accepts_word
    js = rp['P']
    P = nat.mk_pda(js)
    problems = []
    for limit in (1, 2, 8, 2, 8):
        GambaTools.pda_epsilon_closure_max_iterations = limit
        got = pda_accepts_word(P, 'a')
        acc, complete, sizes = nat.ref_pda_run(js, 'a')
        if limit == 8 and acc and max(sizes) <= 8 and not got:
            problems.append('limit set to 8 after import is not honoured')
        if got and not acc:
            problems.append('unsound')
    return bool(problems), {'problems': problems}


REPLAY = {'accepts': _replay_accepts, 'limit': _replay_limit}
