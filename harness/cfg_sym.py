"""Symbolic context-free grammars (ordered candidate rules with presence bits) and the derivability oracle."""
from .common import E, L, TRUE, FALSE


def is_var(s):
    return not (len(s) == 1 and (s.islower() or s.isdigit()))


def mk_symbol(s):
    import gambatools.cfg as C
    return C.Variable(s) if is_var(s) else C.Terminal(s)


def sym_cfg(variables, terminals, candidates, start, tag='r', fixed=()):
    """candidates: list of (variable, rhs) with rhs a tuple/str of symbol names; each candidate is present or not
    (those listed in `fixed` are always present). -> (G, entries) with entries = [(lit, variable, rhs tuple)]"""
    import gambatools.cfg as C
    entries = []
    seq = []
    for i, (X, rhs) in enumerate(candidates):
        rhs = tuple(rhs)
        bit = TRUE if (X, rhs) in fixed or i in fixed else E.fresh('%s%d_%s_%s' % (tag, i, X, '.'.join(rhs) or 'eps'))
        rule = C.Rule(C.Variable(X), C.Alternative(L.GList([mk_symbol(s) for s in rhs])))
        entries.append((bit, X, rhs))
        seq.append((bit, rule))
    if all(b == TRUE for b, _ in seq):
        R = L.GList([r for _, r in seq])
    else:
        R = L.GList._guarded(seq, sep=True)
    G = C.CFG(L.GSet([C.Variable(v) for v in variables]), L.GSet([C.Terminal(t) for t in terminals]), R, C.Variable(start))
    return G, entries


def entries_json(entries, variables, terminals, start):
    def dec(mv):
        return {'V': list(variables), 'Sigma': list(terminals), 'S': start,
                'R': [[X, list(rhs)] for bit, X, rhs in entries if mv(bit)]}
    return dec


def read_cfg(G):
    """entries [(lit, variable, rhs tuple)] of a (symbolic) grammar value as the library left it: guarded rule
    list whose rules may have union-valued fields"""
    d = E.dag
    out = []
    R = G.R
    items = L.ITER(R)
    for g, rule in items:
        for g1, r in E.alts(rule):
            gg = d.and_(g, g1)
            if gg == FALSE:
                continue
            for g2, var in E.alts(r.variable):
                alt = r.alternative
                for g3, a in E.alts(alt):
                    if a is None:
                        # a rule without alternative object: kept visible (never equal to a real rule)
                        lit = d.all_([gg, g2, g3])
                        if lit != FALSE:
                            out.append((lit, str(var), ('<None>',), ('NoneType',)))
                        continue
                    syms = a.symbols
                    if isinstance(syms, (L.GList, L.U)):
                        cands = E.inst(syms)
                    else:
                        cands = [(TRUE, list(syms))]
                    for g4, sl in cands:
                        lit = d.all_([gg, g2, g3, g4])
                        if lit != FALSE:
                            out.append((lit, str(var), tuple(str(s) for s in sl), tuple(type(s).__name__ for s in sl)))
    return out


class GrammarSem:
    """D[(X, i, j)]: X derives word[i:j]  (least fixpoint, spans by increasing length, |V| rounds per length)"""

    def __init__(self, entries, variables, word, fold=False):
        """fold=True: while the table is computed the encoder's pruning of unsatisfiable conjunctions stays on
        (needed for result grammars whose rule guards are strongly correlated); the literals handed out are
        compared by the caller without folding, so the comparison itself is still the solver's"""
        d = E.dag
        saved = d.sim
        if fold and E.rand.exact:
            d.sim = E.rand
        try:
            self._build(entries, variables, word)
        finally:
            d.sim = saved

    def _build(self, entries, variables, word):
        d = E.dag
        self.word = word
        self.vars = list(variables)
        n = len(word)
        D = {}
        rules = [(lit, X, tuple(rhs)) for lit, X, rhs in [(e[0], e[1], e[2]) for e in entries] if lit != FALSE]
        self.rules = rules

        def sym_derives(s, i, j):
            if s in self.vars:
                return D.get((s, i, j), FALSE)
            if is_var(s):
                return FALSE          # a variable without rules in `variables`
            return TRUE if (j - i == 1 and word[i] == s) else FALSE

        def match(rhs, i, j, memo):
            """rhs derives word[i:j]"""
            key = (rhs, i, j)
            if key in memo:
                return memo[key]
            if not rhs:
                r = TRUE if i == j else FALSE
            elif len(rhs) == 1:
                r = sym_derives(rhs[0], i, j)
            else:
                r = d.any_(d.and_(sym_derives(rhs[0], i, k), match(rhs[1:], k, j, memo)) for k in range(i, j + 1))
            memo[key] = r
            return r

        for length in range(0, n + 1):
            spans = [(i, i + length) for i in range(0, n - length + 1)]
            for _ in range(len(self.vars) + 1):
                new = {}
                memo = {}
                for (i, j) in spans:
                    for X in self.vars:
                        new[(X, i, j)] = d.any_(d.and_(lit, match(rhs, i, j, memo)) for lit, Y, rhs in rules if Y == X)
                changed = any(D.get(k_) != v for k_, v in new.items())
                D.update(new)
                if not changed:
                    break
        self.D = D

    def derives(self, X, i=0, j=None):
        j = len(self.word) if j is None else j
        return self.D.get((X, i, j), FALSE)
