"""C19 -- pure operations keep operands intact, independent of history, hash order and logging."""
from . import common as c
from . import nat
from .common import E, L, TRUE, FALSE

META = {
    'bounds': {'quick': 'the operand-unchanged obligations of C03, C04, C06, C07, C08, C10, C14, C18 are part of those checks; here: '
                        '(a) two runs of the same operation on the same argument with independent iteration orders for every set '
                        '(= another process with another PYTHONHASHSEED) and independent pop choices must agree - identical value '
                        'for acceptance tests / enumerators, same language and size for conversions - for dfa_minimize, '
                        'dfa_quotient, dfa_hopfcroft, nfa_to_dfa, dfa_to_regexp, nfa_accepts_word, nfa_words_up_to_n, '
                        'dfa_isomorphic(1), pda_to_cfg on DFAs/NFAs with n <= 3 (2 for the heavier ones); (b) logging on / off give '
                        'the same result for dfa_hopfcroft; (c) printers and acceptance tests leave their argument unchanged; '
                        '(d) a purity sweep over the copying PDA / CFG functions',
               'thorough': 'n one notch up'},
    'outside': 'a real second process is spawned only in the replay step (seeds 0..11); in the solver claim hash order is modelled '
               'as an arbitrary permutation per set object (a superset of what any seed can produce), for sets with at most 3 '
               '(thorough: 4) elements',
    'oracle': 'equality of the two results (structural for values, exact-bound language equivalence for automata), snapshots of the '
              'argument bits before and after',
    'assumptions': ['arguments valid'],
}


def fresh_orders():
    L.ORDER['epoch'] += 1


def lang_equal_bad(job, v1, v2, syms, label, rp, B=None):
    d = E.dag
    B = B if B is not None else len(v1.names) + len(v2.names) - 2
    W = c.sym_positions(syms, B, 'w' + label[:3]) if syms else []
    a, b = v1.init(), v2.init()
    for l in range(B + 1):
        job.oblige('%s: both runs accept the same words of length %d' % (label, l), d.iff(v1.acc(a), v2.acc(b)) ^ 1, replay=rp)
        if not syms:
            break
        if l < B:
            a, b = v1.step(a, W[l]), v2.step(b, W[l])


def job_two_runs_dfa(job, which, n, k, perm=None, exh=14):
    import gambatools.dfa_algorithms as DA
    import gambatools.nfa_algorithms as NA
    import gambatools.regexp_algorithms as RA
    from .oracles import DfaView
    from .harness_util import count_map
    d = E.dag
    c.set_exhaustive(exh)
    job.functions('dfa_algorithms', ['dfa_minimize', 'dfa_from_table', 'dfa_quotient', 'dfa_hopfcroft', 'dfa_isomorphic', 'dfa_isomorphic1'])
    Dm, names, syms = c.sym_dfa(n, k)
    view = DfaView(Dm, names, syms)
    job.inputs['D'] = Dm
    job.decoders['D'] = view.to_json
    rp = ('two_runs', {'D': view.to_json, 'which': which})
    E.while_bound = 4 * n * max(k, 1) + 10
    L.ORDER['mode'] = 'symbolic'      # from here on: every iteration over a set follows a symbolic permutation
    if which in ('dfa_minimize', 'dfa_quotient', 'dfa_hopfcroft'):
        f = getattr(DA, which)
        R1 = job.call(f, Dm, replay=rp)
        fresh_orders()
        R2 = job.call(f, Dm, replay=rp)
        job.lifted()
        if R1 is None or R2 is None:
            return job.solve()
        r1, r2 = DfaView(R1, None, syms), DfaView(R2, None, syms)
        lang_equal_bad(job, r1, r2, syms, which, rp)
        s1, s2 = count_map([r1.qpres[s] for s in r1.names]), count_map([r2.qpres[s] for s in r2.names])
        job.oblige('%s: both runs return the same number of states' % which, d.any_(d.and_(g, h) for a_, g in s1.items() for b_, h in s2.items() if a_ != b_), replay=rp)
    elif which == 'dfa_to_regexp':
        from .regexp_sym import Sem
        # only the order in which states are ripped matters (iteration of Q - {start, accept}); it is symbolic for
        # n = 2 and a pair of concrete permutations (perm 0 against perm p) for n = 3
        L.ORDER['filter'] = lambda elems: not any(str(e) in ('start', 'accept') for e in elems)
        if perm is not None:
            L.ORDER['concrete_perm'] = 0
        r1 = job.call(RA.dfa_to_regexp, Dm, replay=rp)
        fresh_orders()
        if perm is not None:
            L.ORDER['concrete_perm'] = perm
        r2 = job.call(RA.dfa_to_regexp, Dm, replay=rp)
        job.lifted()
        if r1 is None or r2 is None:
            return job.solve()
        sem = Sem()
        for w in c.words_upto(syms, 4 if k > 1 else 6):
            job.oblige('dfa_to_regexp: both runs denote %r or neither' % w, d.iff(sem.member(r1, w), sem.member(r2, w)) ^ 1, replay=rp)
    elif which in ('dfa_isomorphic', 'dfa_isomorphic1'):
        D2, names2, _ = c.sym_dfa(n, k, tag='B', names=['p%d' % i for i in range(n)])
        v2 = DfaView(D2, names2, syms)
        job.inputs['D2'] = D2
        job.decoders['D2'] = v2.to_json
        rp = ('two_runs', {'D': view.to_json, 'D2': v2.to_json, 'which': which})
        f = getattr(DA, which)
        a1 = job.call(f, Dm, D2, replay=rp)
        fresh_orders()
        a2 = job.call(f, Dm, D2, replay=rp)
        job.lifted()
        if a1 is not None and a2 is not None:
            job.oblige('%s: both runs give the same answer' % which, d.iff(E.lit(a1), E.lit(a2)) ^ 1, replay=rp)
    from .C14 import dfa_changed
    job.oblige('argument unchanged', dfa_changed(view, DfaView(Dm, names, syms)), replay=rp)
    job.failures_as_obligations(replay=rp)
    return job.solve()


def job_two_runs_nfa(job, which, n, k, eps=''):
    import gambatools.nfa_algorithms as NA
    from .oracles import NfaView, DfaView
    from .C18 import nfa_changed
    d = E.dag
    L.ORDER['mode'] = 'symbolic'
    job.functions('nfa_algorithms', ['nfa_to_dfa', 'nfa_accepts_word', 'nfa_words_up_to_n', 'epsilon_closure', '_nfa_cache'])
    N, names, syms = c.sym_nfa(n, k, eps=eps, partial=True)
    view = NfaView(N, names, syms)
    job.inputs['N'] = N
    job.decoders['N'] = view.to_json
    rp = ('two_runs_nfa', {'N': view.to_json, 'which': which})
    E.while_bound = 2 ** n + 4
    if which == 'nfa_to_dfa':
        R1 = job.call(NA.nfa_to_dfa, N, replay=rp)
        fresh_orders()
        R2 = job.call(NA.nfa_to_dfa, N, replay=rp)
        job.lifted()
        if R1 is not None and R2 is not None:
            r1, r2 = DfaView(R1, None, syms), DfaView(R2, None, syms)
            lang_equal_bad(job, r1, r2, syms, which, rp)
            job.oblige('nfa_to_dfa: both runs return the same set of states',
                       d.any_(d.iff(r1.qpres.get(s, FALSE), r2.qpres.get(s, FALSE)) ^ 1 for s in set(r1.names) | set(r2.names)), replay=rp)
    else:
        words = c.words_upto(syms, 2)
        if which == 'nfa_accepts_word':
            a1 = {w: NA.nfa_accepts_word(N, w) for w in words}
            fresh_orders()
            a2 = {w: NA.nfa_accepts_word(N, w) for w in words}
            job.lifted()
            for w in words:
                job.oblige('nfa_accepts_word(N, %r): both runs give the same answer' % w, d.iff(E.lit(a1[w]), E.lit(a2[w])) ^ 1, replay=rp)
        else:
            s1 = NA.nfa_words_up_to_n(N, 2)
            fresh_orders()
            s2 = NA.nfa_words_up_to_n(N, 2)
            job.lifted()
            job.oblige('nfa_words_up_to_n(N, 2): both runs return the same set', L.EQ(s1, s2) ^ 1, replay=rp)
    job.oblige('argument unchanged', nfa_changed(view, NfaView(N, names, syms)), replay=rp)
    job.failures_as_obligations(replay=rp)
    return job.solve()


def job_logging(job, n, k):
    """logging on / off must not influence the result (dfa_hopfcroft logs inside its loops)"""
    import gambatools.dfa_algorithms as DA
    from gambatools.global_settings import GambaTools
    from .oracles import DfaView
    job.functions('dfa_algorithms', ['dfa_hopfcroft'])
    job.functions('logging', ['log'])
    d = E.dag
    Dm, names, syms = c.sym_dfa(n, k)
    view = DfaView(Dm, names, syms)
    job.inputs['D'] = Dm
    job.decoders['D'] = view.to_json
    rp = ('logging', {'D': view.to_json})
    E.while_bound = 4 * n * k + 10
    L.LOGGING['mode'] = 'eval'
    GambaTools.enable_logging = False
    R1 = job.call(DA.dfa_hopfcroft, Dm, replay=rp)
    GambaTools.enable_logging = True
    R2 = job.call(DA.dfa_hopfcroft, Dm, replay=rp)
    GambaTools.enable_logging = False
    job.lifted()
    if R1 is not None and R2 is not None:
        r1, r2 = DfaView(R1, None, syms), DfaView(R2, None, syms)
        bad = d.any_(d.iff(r1.qpres.get(s, FALSE), r2.qpres.get(s, FALSE)) ^ 1 for s in set(r1.names) | set(r2.names))
        bad = d.or_(bad, d.any_(d.iff(r1.F.get(s, FALSE), r2.F.get(s, FALSE)) ^ 1 for s in set(r1.names) | set(r2.names)))
        for key in set(r1.dl) | set(r2.dl):
            for t in set(r1.dl.get(key, {})) | set(r2.dl.get(key, {})):
                bad = d.or_(bad, d.iff(r1.dl.get(key, {}).get(t, FALSE), r2.dl.get(key, {}).get(t, FALSE)) ^ 1)
        job.oblige('dfa_hopfcroft: identical result with logging on and off', bad, replay=rp)
    job.failures_as_obligations(replay=rp)
    return job.solve()


def job_printers(job, n, k):
    """printers and acceptance tests leave their argument untouched"""
    import gambatools.dfa_algorithms as DA
    import gambatools.nfa_algorithms as NA
    from .oracles import DfaView, NfaView
    from .C14 import dfa_changed
    from .C18 import nfa_changed
    job.functions('dfa_algorithms', ['print_dfa', 'dfa_accepts_word', 'dfa_words_up_to_n', 'dfa_simulate_word'])
    job.functions('nfa_algorithms', ['print_nfa', 'nfa_accepts_word', 'nfa_words_up_to_n', 'nfa_simulate_word'])
    d = E.dag
    Dm, names, syms = c.sym_dfa(n, k)
    view = DfaView(Dm, names, syms)
    N, nn, _ = c.sym_nfa(n, k, eps='_', tag='N', partial=True)
    nview = NfaView(N, nn, syms)
    job.inputs['D'], job.inputs['N'] = Dm, N
    job.decoders['D'], job.decoders['N'] = view.to_json, nview.to_json
    rp = ('printers', {'D': view.to_json, 'N': nview.to_json})
    E.while_bound = 3 * n + 6
    for f, args in ((DA.print_dfa, (Dm,)), (DA.dfa_accepts_word, (Dm, 'ab'[:k] * 2)), (DA.dfa_words_up_to_n, (Dm, 2)), (DA.dfa_simulate_word, (Dm, 'a' if k else '')),
                    (NA.print_nfa, (N,)), (NA.nfa_accepts_word, (N, 'a' if k else '')), (NA.nfa_words_up_to_n, (N, 2)), (NA.nfa_simulate_word, (N, 'a' if k else ''))):
        job.call(f, *args, replay=rp)
    job.lifted()
    job.oblige('DFA argument unchanged by print / accept / enumerate / simulate', dfa_changed(view, DfaView(Dm, names, syms)), replay=rp)
    job.oblige('NFA argument unchanged by print / accept / enumerate / simulate (no key added to a defaultdict relation counts: empty targets)',
               nfa_changed(nview, NfaView(N, nn, syms)), replay=rp)
    job.failures_as_obligations(replay=rp)
    return job.solve()


def job_purity_dfa(job, n, k, n2=2):
    """every DFA operation that returns a new object leaves its argument(s) unchanged (one obligation per operation,
    checked right after the call)"""
    import gambatools.dfa_algorithms as DA
    import gambatools.regexp_algorithms as RA
    from .oracles import DfaView
    from .C14 import dfa_changed
    names_ops = ['dfa_complement', 'dfa_reverse', 'dfa_no_prefix', 'dfa_no_extend', 'dfa_remove_unreachable_states', 'dfa_make_total',
                 'dfa_minimize', 'dfa_quotient', 'dfa_hopfcroft']
    job.functions('dfa_algorithms', names_ops + ['dfa_product', 'dfa_union', 'dfa_intersection', 'dfa_symmetric_difference', 'dfa_isomorphic', 'dfa_isomorphic1'])
    job.functions('regexp_algorithms', ['dfa_to_regexp', 'dfa_to_gnfa', 'gnfa_minimize'])
    d = E.dag
    c.set_exhaustive(16)
    Dm, names, syms = c.sym_dfa(n, k)
    D2, names2, _ = c.sym_dfa(n2, k, tag='B', names=['p%d' % i for i in range(n2)])
    v1, v2 = DfaView(Dm, names, syms), DfaView(D2, names2, syms)
    job.inputs['D'], job.inputs['D2'] = Dm, D2
    job.decoders['D'], job.decoders['D2'] = v1.to_json, v2.to_json
    E.while_bound = 4 * n * max(k, 1) + 12
    # dfa_to_regexp first: it needs the encoder's exact pruning, which is available while the job has few variables
    ops = [('dfa_to_regexp', RA.dfa_to_regexp, (Dm,))]
    ops += [(nm, getattr(DA, nm), (Dm,)) for nm in names_ops if not (nm == 'dfa_quotient' and n > 2)]
    ops += [(nm, getattr(DA, nm), (Dm, D2)) for nm in ('dfa_union', 'dfa_intersection', 'dfa_symmetric_difference', 'dfa_isomorphic', 'dfa_isomorphic1')]
    results = {}
    for nm, f, args in ops:
        rp = ('purity_dfa', {'D': v1.to_json, 'D2': v2.to_json, 'op': nm})
        results[nm] = job.call(f, *args, replay=rp)
        job.oblige('%s leaves its first argument unchanged' % nm, dfa_changed(v1, DfaView(Dm, names, syms)), replay=rp)
        if len(args) == 2:
            job.oblige('%s leaves its second argument unchanged' % nm, dfa_changed(v2, DfaView(D2, names2, syms)), replay=rp)
    # result and argument must not share mutable parts that a later in-place operation on the *result* would push into the
    # argument: make the complement total / modify it in place and look at the argument again
    R = results.get('dfa_complement')
    if R is not None and not isinstance(R, L.U):
        rp = ('purity_dfa', {'D': v1.to_json, 'D2': v2.to_json, 'op': 'dfa_complement+modify'})
        L.CALLM(R.F, 'add', names[0])
        L.CALLM(R.F, 'discard', names[-1])
        job.oblige('modifying the accepting set of dfa_complement(D) in place does not change D', dfa_changed(v1, DfaView(Dm, names, syms)), replay=rp)
    job.lifted()
    job.failures_as_obligations(replay=('purity_dfa', {'D': v1.to_json, 'D2': v2.to_json, 'op': 'all'}))
    return job.solve()


def job_purity_nfa(job, n, k, eps='_'):
    """NFA operations leave their operands unchanged, also when the same operand is used twice and when results of earlier
    calls are used as operands of later ones (history)"""
    import gambatools.nfa_algorithms as NA
    from .oracles import NfaView
    from .C18 import nfa_changed
    job.functions('nfa_algorithms', ['nfa_union', 'nfa_concatenation', 'nfa_repetition', 'nfa_to_dfa', '_copy_transitions', '_fresh_state'])
    d = E.dag
    N1, names1, syms = c.sym_nfa(n, k, eps=eps, tag='A', names=['a%d' % i for i in range(n)], partial=True)
    N2, names2, _ = c.sym_nfa(n, k, eps=eps, tag='B', names=['b%d' % i for i in range(n)], partial=True)
    v1, v2 = NfaView(N1, names1, syms), NfaView(N2, names2, syms)
    job.inputs['N1'], job.inputs['N2'] = N1, N2
    job.decoders['N1'], job.decoders['N2'] = v1.to_json, v2.to_json
    E.while_bound = 2 ** n + 6
    seq = [('nfa_repetition', lambda: NA.nfa_repetition(N1)), ('nfa_concatenation', lambda: NA.nfa_concatenation(N1, N2)),
           ('nfa_union', lambda: NA.nfa_union(N1, N2)), ('nfa_repetition again', lambda: NA.nfa_repetition(N1)),
           ('nfa_concatenation(N2, N1)', lambda: NA.nfa_concatenation(N2, N1)), ('nfa_to_dfa', lambda: NA.nfa_to_dfa(N1))]
    for nm, f in seq:
        rp = ('purity_nfa', {'N1': v1.to_json, 'N2': v2.to_json, 'upto': nm})
        job.call(f, replay=rp)
        job.oblige('after %s: first operand unchanged' % nm, nfa_changed(v1, NfaView(N1, names1, syms)), replay=rp)
        job.oblige('after %s: second operand unchanged' % nm, nfa_changed(v2, NfaView(N2, names2, syms)), replay=rp)
    job.lifted()
    job.failures_as_obligations(replay=('purity_nfa', {'N1': v1.to_json, 'N2': v2.to_json, 'upto': 'all'}))
    return job.solve()


def job_nfa_history(job, op, n, k, K=3):
    """same operands, different call history: the shared default IdentifierGenerator starts at any index 0..K (= after any K
    earlier calls); the operation is called twice in a row; both results must have the same language. Operand state names are
    drawn from the names the generator produces (q0, q1, ...), which is where history can leak into the result."""
    import gambatools.nfa_algorithms as NA
    from .oracles import NfaView
    from .C18 import set_generator_history, nfa_changed
    job.functions('nfa_algorithms', ['nfa_union', 'nfa_repetition', '_fresh_state', '_copy_transitions'])
    job.functions('identifier_generator', ['IdentifierGenerator'])
    d = E.dag
    hist = set_generator_history(K)
    N1, names1, syms = c.sym_nfa(n, k, eps='', tag='A', names=['p%d' % i for i in range(n)], partial=True)
    N2, names2, _ = c.sym_nfa(n, k, eps='', tag='B', names=['q%d' % (i + 1) for i in range(n)], partial=True)
    v1, v2 = NfaView(N1, names1, syms), NfaView(N2, names2, syms)
    job.inputs['N1'], job.inputs['N2'] = N1, N2
    job.decoders['N1'], job.decoders['N2'] = v1.to_json, v2.to_json
    job.inputs['history'] = None
    job.decoders['history'] = lambda mv: [c.conc(h, mv) for h in hist]
    rp = ('nfa_history', {'N1': v1.to_json, 'N2': v2.to_json, 'op': op, 'history': lambda mv: [c.conc(h, mv) for h in hist], 'K': K})
    f = (lambda: NA.nfa_union(N1, N2)) if op == 'nfa_union' else (lambda: NA.nfa_repetition(N2))
    R1 = job.call(f, replay=rp)
    R2 = job.call(f, replay=rp)
    job.lifted()
    if R1 is not None and R2 is not None:
        r1, r2 = NfaView(R1, None, syms), NfaView(R2, None, syms)
        for w in c.words_upto(syms, 3 if k > 1 else 4):
            job.oblige('%s: first and second call (different generator history) accept %r or neither' % (op, w),
                       d.iff(r1.accepts(w), r2.accepts(w)) ^ 1, replay=rp)
    job.oblige('operands unchanged', d.or_(nfa_changed(v1, NfaView(N1, names1, syms)), nfa_changed(v2, NfaView(N2, names2, syms))), replay=rp)
    job.failures_as_obligations(replay=rp)
    return job.solve()


def job_pda_to_cfg_twice(job, fam, nsym=4):
    """pda_to_cfg called twice on the same argument: the argument is unchanged and both grammars have the same size"""
    import gambatools.pda_algorithms as PA
    from .pda_sym import sym_pda, pda_json, read_pda
    from .C09 import family, STATES
    from .harness_util import count_map
    job.functions('pda_algorithms', ['pda_to_cfg'])
    d = E.dag
    gamma, fixed, sym = family(fam, '_', 0, nsym)
    P, trans, fbits = sym_pda(STATES, ['a'], gamma, '_', fixed, sym)
    dec = pda_json(STATES, ['a'], gamma, '_', trans, fbits, 'p')
    job.inputs['P'] = P
    job.decoders['P'] = dec
    rp = ('pda_twice', {'P': dec})
    G1 = job.call(PA.pda_to_cfg, P, replay=rp)
    G2 = job.call(PA.pda_to_cfg, P, replay=rp)
    job.lifted()
    Q0, t0, F0, q00, Gam0, _ = read_pda(P)
    before = {t: lit for lit, t in trans}
    after = {}
    for lit, t in t0:
        after[t] = d.or_(after.get(t, FALSE), lit)
    changed = d.any_(d.iff(before.get(t, FALSE), after.get(t, FALSE)) ^ 1 for t in set(before) | set(after))
    changed = d.or_(changed, d.any_(d.iff(fbits.get(s, FALSE), F0.get(s, FALSE)) ^ 1 for s in set(fbits) | set(F0)))
    changed = d.or_(changed, d.any_(g for s, g in Q0.items() if s not in STATES))
    changed = d.or_(changed, d.any_(g for s, g in Gam0.items() if s not in gamma))
    changed = d.or_(changed, d.any_(g for s, g in q00.items() if s != 'p'))
    job.oblige('argument PDA unchanged by pda_to_cfg (two calls)', changed, replay=rp)
    if G1 is not None and G2 is not None:
        v1 = count_map(list(L._setview(G1.V).m.values()))
        v2 = count_map(list(L._setview(G2.V).m.values()))
        job.oblige('both calls produce grammars with the same number of variables', d.any_(d.and_(g, h) for a_, g in v1.items() for b_, h in v2.items() if a_ != b_), replay=rp)
    job.failures_as_obligations(replay=rp)
    return job.solve()


def jobs(tier):
    J = []

    def add(name, fn, timeout=None, **params):
        J.append({'name': name, 'fn': fn, 'params': params, **({'timeout': timeout} if timeout else {})})
    q = tier == 'quick'
    tmo = 900 if q else 3000
    # grammar operations: purity of every single-phase wrapper and of cfg_to_chomsky (jobs of C08: argument rules, shared
    # Alternative objects and variable set unchanged), and history independence of the membership test and the enumerator
    # (jobs of C07 / C02: same rules, other start variable, then the first grammar again)
    from .C08 import job_phase, PHASES
    from .C07 import job_general
    from .C02 import job_cfg
    for ph in PHASES:
        add('grammar_purity_%s' % ph[4:], job_phase, family='long', what=ph, maxlen=2, nsym=5, timeout=tmo)
    add('grammar_purity_to_chomsky', job_phase, family='three_vars', what='cfg_to_chomsky', maxlen=2, nsym=5, second_start=True, timeout=tmo)
    add('grammar_history_accepts', job_general, family='eps_unit', maxlen=2, nsym=5, history=True, timeout=tmo)
    add('grammar_history_enumerate', job_cfg, kind='general', family='three_vars', nsym=5, N=2, history=True, timeout=tmo)
    add('two_runs_minimize_n3_k1', job_two_runs_dfa, which='dfa_minimize', n=3, k=1, timeout=tmo)
    add('two_runs_minimize_n2_k2', job_two_runs_dfa, which='dfa_minimize', n=2, k=2, timeout=tmo)
    add('two_runs_quotient_n2_k2', job_two_runs_dfa, which='dfa_quotient', n=2, k=2, timeout=tmo)
    add('two_runs_hopcroft_n2_k2', job_two_runs_dfa, which='dfa_hopfcroft', n=2, k=2, timeout=tmo)
    add('two_runs_hopcroft_n3_k1', job_two_runs_dfa, which='dfa_hopfcroft', n=3, k=1, timeout=tmo)
    add('two_runs_dfa_to_regexp_n2_k2', job_two_runs_dfa, which='dfa_to_regexp', n=2, k=2, timeout=tmo)
    for p in range(1, 6):
        add('two_runs_dfa_to_regexp_n3_k1_p%d' % p, job_two_runs_dfa, which='dfa_to_regexp', n=3, k=1, perm=p, timeout=tmo)
        add('two_runs_dfa_to_regexp_n3_k2_p%d' % p, job_two_runs_dfa, which='dfa_to_regexp', n=3, k=2, perm=p, exh=15, timeout=tmo)
    add('nfa_history_union_n2_k1', job_nfa_history, op='nfa_union', n=2, k=1, timeout=tmo)
    add('nfa_history_union_n2_k2', job_nfa_history, op='nfa_union', n=2, k=2, timeout=tmo)
    add('nfa_history_repetition_n2_k2', job_nfa_history, op='nfa_repetition', n=2, k=2, timeout=tmo)
    add('purity_dfa_n2_k2', job_purity_dfa, n=2, k=2, timeout=tmo)
    add('purity_dfa_n3_k1', job_purity_dfa, n=3, k=1, timeout=tmo)
    add('purity_nfa_n2_k1', job_purity_nfa, n=2, k=1, timeout=tmo)
    add('purity_nfa_n2_k2_eps_empty', job_purity_nfa, n=2, k=2, eps='', timeout=tmo)
    add('two_runs_isomorphic_n2_k2', job_two_runs_dfa, which='dfa_isomorphic', n=2, k=2, timeout=tmo)
    add('two_runs_isomorphic1_n2_k2', job_two_runs_dfa, which='dfa_isomorphic1', n=2, k=2, timeout=tmo)
    add('two_runs_nfa_to_dfa_n2_k2', job_two_runs_nfa, which='nfa_to_dfa', n=2, k=2, timeout=tmo)
    add('two_runs_nfa_to_dfa_n3_k1', job_two_runs_nfa, which='nfa_to_dfa', n=3, k=1, eps='_', timeout=tmo)
    add('two_runs_nfa_accepts_n3_k1', job_two_runs_nfa, which='nfa_accepts_word', n=3, k=1, timeout=tmo)
    add('two_runs_nfa_words_n2_k2', job_two_runs_nfa, which='nfa_words_up_to_n', n=2, k=2, timeout=tmo)
    add('logging_hopcroft_n2_k2', job_logging, n=2, k=2, timeout=tmo)
    add('printers_n2_k2', job_printers, n=2, k=2, timeout=tmo)
    for fam in ('replace_and_pop', 'grow_cycle'):
        add('pda_to_cfg_twice_%s' % fam, job_pda_to_cfg_twice, fam=fam, timeout=tmo)
    if not q:
        # (two runs of dfa_minimize on 3 states over two symbols / on 4 states, and of dfa_quotient on 3 states, did not finish
        # in 3 CPU-minutes each: not registered; the thorough tier adds history depth and larger purity sweeps instead)
        add('nfa_history_union_n2_k2_K5', job_nfa_history, op='nfa_union', n=2, k=2, K=5, timeout=tmo)
        add('purity_nfa_n3_k1', job_purity_nfa, n=3, k=1, timeout=tmo)
        add('printers_n3_k2', job_printers, n=3, k=2, timeout=tmo)
    return J


# ------------------------------------------------------------------ native replay: real processes with different hash seeds
def _sub(code, seed):
    import subprocess, sys, os, json
    env = dict(os.environ, PYTHONHASHSEED=str(seed))
    p = subprocess.run([sys.executable, '-c', code], capture_output=True, text=True, env=env, timeout=60)
    return p.stdout.strip().split('\n')[-1] if p.stdout.strip() else 'ERR ' + p.stderr[-200:]


def _replay_two_runs(rp):
    import json
    which = rp['which']
    code = '''
import json, sys, os
sys.path.insert(0, %r)
sys.path.insert(0, os.path.join(os.environ.get('GAMBATOOLS_REPO', '/repo'), 'src'))
from harness import nat
import gambatools.dfa_algorithms as DA, gambatools.regexp_algorithms as RA
D = nat.mk_dfa(json.loads(%r))
before = nat.dfa_json_of(D)
w = %r
if w in ("dfa_minimize", "dfa_quotient", "dfa_hopfcroft"):
    R = getattr(DA, w)(D); rj = nat.dfa_json_of(R)
    out = [len(R.Q), sorted(x for x in nat.words_upto(rj["Sigma"], 2 * len(before["Q"])) if nat.ref_dfa_accepts(rj, x))]
elif w == "dfa_to_regexp":
    r = RA.dfa_to_regexp(D); out = [sorted(nat.ref_regexp_lang(nat.regexp_json_of(r), 4))]
else:
    D2 = nat.mk_dfa(json.loads(%r)); out = [getattr(DA, w)(D, D2)]
out.append(nat.dfa_json_of(D) == before)
print(json.dumps(out))
''' % ('/verif', json.dumps(rp['D']), which, json.dumps(rp.get('D2', rp['D'])))
    outs = {s: _sub(code, s) for s in range(0, rp.get('_seeds', 8))}
    vals = set(outs.values())
    mutated = any(v.endswith('false]') for v in vals)
    if len(vals) > 1 or mutated or any(v.startswith('ERR') for v in vals):
        return True, {'results by PYTHONHASHSEED': outs}
    if which in ('dfa_minimize', 'dfa_quotient', 'dfa_hopfcroft') and not rp.get('_padded'):
        # CPython iterates small sets (<= 4 strings) and their copies in the same order under every seed, so an
        # order-dependent counterexample found on a small DFA cannot show there. Amplified replay: the same DFA with extra
        # unreachable states, each a duplicate of an existing state (language and number of classes unchanged)
        Dj = rp['D']
        for extra in (5 - len(Dj['Q']), 7 - len(Dj['Q'])):
            if extra <= 0:
                continue
            P = {'Q': list(Dj['Q']), 'Sigma': list(Dj['Sigma']), 'delta': [list(t) for t in Dj['delta']], 'q0': Dj['q0'], 'F': list(Dj['F'])}
            for i in range(extra):
                src = Dj['Q'][i % len(Dj['Q'])]
                nm = 'r%d' % i
                P['Q'].append(nm)
                P['delta'] += [[nm, a, t] for (p_, a, t) in Dj['delta'] if p_ == src]
                if src in Dj['F']:
                    P['F'].append(nm)
            ok, detail = _replay_two_runs(dict(rp, D=P, _padded=True))
            if ok:
                detail['padded input (unreachable duplicates added)'] = P
                return True, detail
        # second amplification: the solver says the result depends on the iteration order of some set, which CPython does
        # not vary for this few states; look for a larger witness of the same dependence: seeded random non-minimal DFAs
        # with 6 states (every state reachable along a cycle) over the same alphabet, each run under 8 hash seeds
        import random
        rng = random.Random(20260929)
        cands = []
        for n_ in (6, 9, 12):        # non-minimal, every state reachable: a: i -> i+1, b: i -> 2i (mod n), accepting: 3 | i
            Q = ['s%d' % i for i in range(n_)]
            cands.append({'Q': Q, 'Sigma': ['a', 'b'], 'q0': Q[0], 'F': [q for i, q in enumerate(Q) if i % 3 == 0],
                          'delta': [[Q[i], 'a', Q[(i + 1) % n_]] for i in range(n_)] + [[Q[i], 'b', Q[(2 * i) % n_]] for i in range(n_)]})
        for trial in range(4):
            Q = ['s%d' % i for i in range(6)]
            cands.append({'Q': Q, 'Sigma': ['a', 'b'], 'q0': Q[0], 'F': [q for i, q in enumerate(Q) if i % 2 == trial % 2],
                          'delta': [[Q[i], 'a', Q[(i + 1) % 6]] for i in range(6)] + [[q, 'b', rng.choice(Q)] for q in Q]})
        for P in cands:
            ok, detail = _replay_two_runs(dict(rp, D=P, _padded=True, _seeds=12))
            if ok:
                detail['larger witness of the same order dependence'] = P
                return True, detail
    return False, {'results by PYTHONHASHSEED': outs}


def _replay_two_runs_nfa(rp):
    import json
    code = '''
import json, sys, os
sys.path.insert(0, %r)
sys.path.insert(0, os.path.join(os.environ.get('GAMBATOOLS_REPO', '/repo'), 'src'))
from harness import nat
import gambatools.nfa_algorithms as NA
N = nat.mk_nfa(json.loads(%r))
before = [x for x in nat.nfa_json_of(N)["delta"] if x[2]]
w = %r
if w == "nfa_to_dfa":
    R = NA.nfa_to_dfa(N); rj = nat.dfa_json_of(R); out = [sorted(R.Q), sorted(x for x in nat.words_upto(rj["Sigma"], 5) if nat.ref_dfa_accepts(rj, x))]
elif w == "nfa_accepts_word":
    out = [[NA.nfa_accepts_word(N, x) for x in nat.words_upto(sorted(N.Sigma), 2)]]
else:
    out = [sorted(NA.nfa_words_up_to_n(N, 2))]
out.append([x for x in nat.nfa_json_of(N)["delta"] if x[2]] == before)
print(json.dumps(out))
''' % ('/verif', json.dumps(rp['N']), rp['which'])
    outs = {s: _sub(code, s) for s in range(0, 8)}
    vals = set(outs.values())
    return len(vals) > 1 or any(v.endswith('false]') or v.startswith('ERR') for v in vals), {'results by PYTHONHASHSEED': outs}


def _replay_logging(rp):
    import io, contextlib
    import gambatools.dfa_algorithms as DA
    from gambatools.global_settings import GambaTools
    D = nat.mk_dfa(rp['D'])
    GambaTools.enable_logging = False
    r1 = nat.dfa_json_of(DA.dfa_hopfcroft(D))
    GambaTools.enable_logging = True
    with contextlib.redirect_stdout(io.StringIO()):
        r2 = nat.dfa_json_of(DA.dfa_hopfcroft(D))
    GambaTools.enable_logging = False
    return r1 != r2, {'off': r1, 'on': r2}


def _replay_printers(rp):
    import gambatools.dfa_algorithms as DA
    import gambatools.nfa_algorithms as NA
    D, N = nat.mk_dfa(rp['D']), nat.mk_nfa(rp['N'])
    b1, b2 = nat.dfa_json_of(D), [x for x in nat.nfa_json_of(N)['delta'] if x[2]]
    f2 = sorted(N.F)
    try:
        DA.print_dfa(D); DA.dfa_accepts_word(D, ''.join(sorted(D.Sigma)) * 2); DA.dfa_words_up_to_n(D, 2); DA.dfa_simulate_word(D, 'a')
        NA.print_nfa(N); NA.nfa_accepts_word(N, 'a'); NA.nfa_words_up_to_n(N, 2); NA.nfa_simulate_word(N, 'a')
    except Exception as e:
        return True, {'raised': repr(e)}
    return nat.dfa_json_of(D) != b1 or [x for x in nat.nfa_json_of(N)['delta'] if x[2]] != b2 or sorted(N.F) != f2, {}


def _replay_pda_twice(rp):
    import gambatools.pda_algorithms as PA
    P = nat.mk_pda(rp['P'])
    before = nat.pda_json_of(P)
    try:
        G1 = PA.pda_to_cfg(P)
        mid = nat.pda_json_of(P)
        G2 = PA.pda_to_cfg(P)
    except Exception as e:
        return True, {'raised': repr(e)}
    return mid != before or nat.pda_json_of(P) != before or len(G1.V) != len(G2.V), {'argument changed': mid != before, 'variables': [len(G1.V), len(G2.V)]}


def _replay_purity_dfa(rp):
    import gambatools.dfa_algorithms as DA
    import gambatools.regexp_algorithms as RA
    D, D2 = nat.mk_dfa(rp['D']), nat.mk_dfa(rp['D2'])
    b1, b2 = nat.dfa_json_of(D), nat.dfa_json_of(D2)
    unary = ['dfa_complement', 'dfa_reverse', 'dfa_no_prefix', 'dfa_no_extend', 'dfa_remove_unreachable_states', 'dfa_make_total',
             'dfa_minimize', 'dfa_quotient', 'dfa_hopfcroft']
    binary = ['dfa_union', 'dfa_intersection', 'dfa_symmetric_difference', 'dfa_isomorphic', 'dfa_isomorphic1']
    changed = []
    try:
        for nm in unary + ['dfa_to_regexp'] + binary:
            f = getattr(DA, nm, None) or getattr(RA, nm)
            R = f(D, D2) if nm in binary else f(D)
            if nm == 'dfa_complement':
                R.F.add(sorted(D.Q)[0]); R.F.discard(sorted(D.Q)[-1])
            if nat.dfa_json_of(D) != b1 or nat.dfa_json_of(D2) != b2:
                changed.append(nm)
                D, D2 = nat.mk_dfa(rp['D']), nat.mk_dfa(rp['D2'])
    except Exception as e:
        return True, {'raised': repr(e)}
    return bool(changed), {'operations that changed an argument': changed}


def _replay_purity_nfa(rp):
    import gambatools.nfa_algorithms as NA
    N1, N2 = nat.mk_nfa(rp['N1']), nat.mk_nfa(rp['N2'])
    norm = lambda N: ([x for x in nat.nfa_json_of(N)['delta'] if x[2]], sorted(N.F), sorted(N.Q))
    b1, b2 = norm(N1), norm(N2)
    changed = []
    try:
        for nm, f in (('nfa_repetition', lambda: NA.nfa_repetition(N1)), ('nfa_concatenation', lambda: NA.nfa_concatenation(N1, N2)),
                      ('nfa_union', lambda: NA.nfa_union(N1, N2)), ('nfa_repetition again', lambda: NA.nfa_repetition(N1)),
                      ('nfa_concatenation(N2, N1)', lambda: NA.nfa_concatenation(N2, N1)), ('nfa_to_dfa', lambda: NA.nfa_to_dfa(N1))):
            f()
            if norm(N1) != b1 or norm(N2) != b2:
                changed.append(nm)
    except Exception as e:
        return True, {'raised': repr(e)}
    return bool(changed), {'operations after which an operand differs': changed}


def _replay_nfa_history(rp):
    import gambatools.nfa_algorithms as NA
    N1, N2 = nat.mk_nfa(rp['N1']), nat.mk_nfa(rp['N2'])
    syms = sorted(set(rp['N1']['Sigma']) | set(rp['N2']['Sigma']))
    words = nat.words_upto(syms, 4)
    langs = []
    try:
        gens = [g for f in (NA.nfa_union, NA.nfa_repetition) for g in (f.__defaults__ or ()) if type(g).__name__ == 'IdentifierGenerator']
        for g, h in zip(gens, rp['history']):
            g.index = h
        for _ in range(rp['K'] + 3):        # the same call again and again: only the history differs
            R = NA.nfa_union(N1, N2) if rp['op'] == 'nfa_union' else NA.nfa_repetition(N2)
            rj = nat.nfa_json_of(R)
            langs.append(tuple(w for w in words if nat.ref_nfa_accepts(rj, w)))
    except Exception as e:
        return True, {'raised': repr(e)}
    return len(set(langs)) > 1, {'languages (words <= 4) of successive identical calls': [list(l)[:6] for l in langs]}


from .C08 import REPLAY as _R08
from .C07 import REPLAY as _R07
from .C02 import REPLAY as _R02
REPLAY = {'phase': _R08['phase'], 'phase_history': _R08['phase_history'], 'cyk': _R07['cyk'], 'cyk_history': _R07['cyk_history'], 'cfg': _R02['cfg'], 'cfg_history': _R02['cfg_history'], 'nfa_history': _replay_nfa_history, 'purity_dfa': _replay_purity_dfa, 'purity_nfa': _replay_purity_nfa, 'two_runs': _replay_two_runs, 'two_runs_nfa': _replay_two_runs_nfa, 'logging': _replay_logging, 'printers': _replay_printers, 'pda_twice': _replay_pda_twice}
