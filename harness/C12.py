"""C12 -- an exercise checker never reports OK for a wrong answer."""
import itertools

from . import common as c
from . import nat
from .common import E, L, TRUE, FALSE

META = {
    'bounds': {'quick': 'reference DFAs / NFAs with 2 states (minimal-DFA exercise: 3) over {a} or {a, b}; answers: every DFA / NFA over the '
                        'state names the exercise prescribes (product states, subset states, reused states plus a new initial state), '
                        'printed by the library printers and read back by the checker through its own parsers, optionally with one '
                        'garbage line (ill-formed answer); checker length bound 3; word lists concrete; regular-expression answers: '
                        'operator shapes of depth <= 2 with symbolic leaves; compare_languages: all pairs of languages over words of '
                        'length <= 2; grammars: the C08 candidate-rule families, words <= 3',
               'thorough': 'reference automata one notch larger, length bound 4'},
    'outside': 'answers outside the rendered families (arbitrary text); checker length bounds above the stated one; TM / PDA exercises; '
               'cfg_check_chomsky as a judge of wrong answers',
    'oracle': 'reference semantics of C01 / C05 / C07 (reachability matrices, denotational regexps, derivability tables) on reference and '
              'answer; the criterion is the weakest reading of the exercise: language agreement up to the length bound plus the '
              'structural requirement named per checker',
    'assumptions': ['reference objects valid', 'answer text is a rendering of an automaton over the prescribed state names or that text with one garbage line'],
}

EXTRA_NATIVE = ('regexp_parser', 'regexp_simple_parser')


def run_checker(fn, *args, **kw):
    """run a lifted checker with print captured -> list of (guard, text) events"""
    del L.OUTPUT[:]
    try:
        fn(*args, **kw)
    except L.LiftError:
        raise
    except Exception as e:      # a checker that raises on every input: nothing is printed
        L.OUTPUT.append((TRUE, '<raised %s: %s>' % (type(e).__name__, str(e)[:60])))
    ev = list(L.OUTPUT)
    del L.OUTPUT[:]
    return ev


def said(events, pred):
    d = E.dag
    return d.any_(d.and_(g, d.any_(h for h, t in E.alts(text) if isinstance(t, str) and pred(t))) for g, text in events)


def said_ok(events):
    return said(events, lambda t: t == 'OK')


def messages(events):
    """{text: literal} of everything printed"""
    d = E.dag
    out = {}
    for g, text in events:
        for h, t in E.alts(text):
            if isinstance(t, str):
                out[t] = d.or_(out.get(t, FALSE), d.and_(g, h))
    return out


def with_garbage(rope, bit):
    """the answer text, optionally with one garbage line (a single token cannot be a declaration or a transition)"""
    if isinstance(rope, L.GStr):
        pieces = [(g, p) for g, p in rope.pieces if p is not L._STRIP_MARK]
        # printers strip the text: the last piece has no newline after strip; re-add one before the garbage line
        return L.GStr(pieces + [(bit, '\nzz\n')])
    return L.GStr([(TRUE, rope), (bit, '\nzz\n')])


def word_feedback_obligations(job, events, words, ans_acc, ref_acc, rp, what):
    """a reported counterexample word is genuine, has the right polarity and is of minimal length among the words of
    that polarity. ans_acc / ref_acc: {word: literal}"""
    d = E.dag
    msgs = messages(events)
    for w in words:
        shown = w if w else 'ε'
        extra = msgs.get("Error: word '%s' should not be accepted" % shown, FALSE)
        missing = msgs.get("Error: word '%s' should be accepted" % shown, FALSE)
        is_extra = lambda v: d.and_(ans_acc[v], ref_acc[v] ^ 1)
        is_missing = lambda v: d.and_(ans_acc[v] ^ 1, ref_acc[v])
        shorter = [v for v in words if len(v) < len(w)]
        if extra != FALSE:
            job.oblige("%s: reported word %r 'should not be accepted' is accepted by the answer and not by the reference, and no shorter such word exists" % (what, w),
                       d.and_(extra, d.or_(is_extra(w) ^ 1, d.any_(is_extra(v) for v in shorter))), replay=rp)
        if missing != FALSE:
            job.oblige("%s: reported word %r 'should be accepted' is rejected by the answer and accepted by the reference, and no shorter such word exists" % (what, w),
                       d.and_(missing, d.or_(is_missing(w) ^ 1, d.any_(is_missing(v) for v in shorter))), replay=rp)
    known = set()
    for w in words:
        shown = w if w else 'ε'
        known.add("Error: word '%s' should not be accepted" % shown)
        known.add("Error: word '%s' should be accepted" % shown)
    stray = [g for t, g in msgs.items() if t.startswith("Error: word '") and t not in known]
    if stray:
        job.oblige('%s: no counterexample word outside the length bound is reported' % what, d.any_(stray), replay=rp)


# ------------------------------------------------------------------------------------------ compare_languages
def job_compare(job, maxlen, syms='ab'):
    from gambatools.language_generator import compare_languages
    job.functions('language_generator', ['compare_languages'])
    d = E.dag
    words = c.words_upto(list(syms), maxlen)
    A1, A2 = L.GSet(), L.GSet()
    b1, b2 = {}, {}
    for w in words:
        b1[w] = E.fresh('A1_%s' % (w or 'eps'))
        b2[w] = E.fresh('A2_%s' % (w or 'eps'))
        A1.m[w] = b1[w]
        A2.m[w] = b2[w]
    job.inputs['A1'], job.inputs['A2'] = L.GSet._from(dict(A1.m)), L.GSet._from(dict(A2.m))
    rp = ('compare', {'A1': lambda mv: [w for w in words if mv(b1[w])], 'A2': lambda mv: [w for w in words if mv(b2[w])]})
    fb = job.call(compare_languages, A1, A2, replay=rp)
    job.lifted()
    if fb is None:
        return job.solve()
    has = lambda msg: E.lit(L.CMP('In', msg, fb))
    extra = lambda w: d.and_(b1[w], b2[w] ^ 1)
    missing = lambda w: d.and_(b1[w] ^ 1, b2[w])
    equal = d.all_(d.iff(b1[w], b2[w]) for w in words)
    n = L.CALL(len, fb)
    job.oblige('no feedback iff the languages are equal', d.iff(E.lit(L.CMP('Eq', n, 0)), equal) ^ 1, replay=rp)
    for w in words:
        shown = w if w else 'ε'
        shorter = [v for v in words if len(v) < len(w)]
        job.oblige('word %r reported as extra only if it is a shortest word of answer - reference' % w,
                   d.and_(has("Error: word '%s' should not be accepted" % shown), d.or_(extra(w) ^ 1, d.any_(extra(v) for v in shorter))), replay=rp)
        job.oblige('word %r reported as missing only if it is a shortest word of reference - answer and nothing is extra' % w,
                   d.and_(has("Error: word '%s' should be accepted" % shown),
                          d.any_([missing(w) ^ 1, d.any_(missing(v) for v in shorter), d.any_(extra(v) for v in words)])), replay=rp)
    job.oblige('at most one message', E.lit(L.CMP('Gt', n, 1)), replay=rp)
    job.failures_as_obligations(replay=rp)
    job.sample_replays = 3
    return job.solve()


# ------------------------------------------------------------------------------------------ complement
def job_complement(job, n, k):
    import gambatools.notebook_dfa as ND
    from gambatools.dfa_algorithms import print_dfa
    from .oracles import DfaView
    job.functions('notebook_dfa', ['check_dfa_complement'])
    job.functions('notebook', ['print_feedback'])
    d = E.dag
    D1, names, syms = c.sym_dfa(n, k, tag='R')
    A, _, _ = c.sym_dfa(n, k, tag='A')
    v1, va = DfaView(D1, names, syms), DfaView(A, names, syms)
    garbage = E.fresh('garbage')
    job.inputs['reference'], job.inputs['answer'] = D1, A
    job.decoders['reference'], job.decoders['answer'] = v1.to_json, va.to_json
    job.inputs['garbage_line'] = L.SB(garbage)
    rp = ('complement', {'reference': v1.to_json, 'answer': va.to_json, 'garbage': lambda mv: bool(mv(garbage))})
    t1, ta = print_dfa(D1), with_garbage(print_dfa(A), garbage)
    ev = run_checker(ND.check_dfa_complement, ta, t1)
    job.lifted()
    ok = said_ok(ev)
    same_delta = d.all_(d.iff(v1.dl[key][t], va.dl[key][t]) for key in v1.dl for t in v1.dl[key])
    compl_F = d.all_(d.iff(va.F[q], v1.F[q] ^ 1) for q in names)
    job.oblige('OK only if the answer has the transitions of the reference and exactly the complementary accepting states (and is well-formed)',
               d.and_(ok, d.all_([same_delta, compl_F, garbage ^ 1]) ^ 1), replay=rp)
    job.must_reach('OK is printed for some answer', ok)
    job.must_reach('something other than OK is printed for some answer', said(ev, lambda t: t != 'OK'))
    job.failures_as_obligations(replay=rp)
    job.sample_replays = 3
    return job.solve()


# ------------------------------------------------------------------------------------------ products
def job_product(job, op, k, length, n1=2, n2=2):
    import gambatools.notebook_dfa as ND
    from gambatools.dfa_algorithms import print_dfa
    from .oracles import DfaView
    job.functions('notebook_dfa', ['check_dfa_union', 'check_dfa_intersection', 'check_dfa_symmetric_difference', 'check_product_automaton', 'extract_states'])
    job.functions('language_generator', ['compare_languages'])
    d = E.dag
    D1, names1, syms = c.sym_dfa(n1, k, tag='R1')
    D2, names2, _ = c.sym_dfa(n2, k, tag='R2', names=['p%d' % i for i in range(n2)])
    pn = ['(%s,%s)' % (a, b) for a in names1 for b in names2]
    A, _, _ = c.sym_dfa(len(pn), k, tag='A', names=pn)
    A.q0 = c.choice(pn, 'Aq0')
    v1, v2, va = DfaView(D1, names1, syms), DfaView(D2, names2, syms), DfaView(A, pn, syms)
    garbage = E.fresh('garbage')
    job.inputs.update({'D1': D1, 'D2': D2, 'answer': A})
    job.decoders.update({'D1': v1.to_json, 'D2': v2.to_json, 'answer': va.to_json})
    job.inputs['garbage_line'] = L.SB(garbage)
    rp = ('product', {'op': op, 'D1': v1.to_json, 'D2': v2.to_json, 'answer': va.to_json, 'length': length, 'garbage': lambda mv: bool(mv(garbage))})
    fn = {'union': ND.check_dfa_union, 'intersection': ND.check_dfa_intersection, 'symmetric_difference': ND.check_dfa_symmetric_difference}[op]
    ev = run_checker(fn, with_garbage(print_dfa(A), garbage), print_dfa(D1), print_dfa(D2), length)
    job.lifted()
    ok = said_ok(ev)
    comb = {'union': d.or_, 'intersection': d.and_, 'symmetric_difference': lambda a, b: d.iff(a, b) ^ 1}[op]
    words = c.words_upto(syms, length)
    ans = {w: va.accepts(w) for w in words}
    ref = {w: comb(v1.accepts(w), v2.accepts(w)) for w in words}
    job.oblige('OK only if L(answer) = L(D1) %s L(D2) on all words up to the length bound (and the answer is well-formed)' % op,
               d.and_(ok, d.or_(garbage, d.any_(d.iff(ans[w], ref[w]) ^ 1 for w in words))), replay=rp)
    word_feedback_obligations(job, ev, words, ans, ref, rp, 'check_dfa_%s' % op)
    job.must_reach('OK is printed for some answer', ok)
    job.must_reach('a counterexample word is printed for some answer', said(ev, lambda t: t.startswith("Error: word")))
    job.failures_as_obligations(replay=rp)
    job.sample_replays = 3
    return job.solve()


# ------------------------------------------------------------------------------------------ reverse
def job_reverse(job, n, k, length):
    import gambatools.notebook_dfa as ND
    from gambatools.dfa_algorithms import print_dfa
    from gambatools.nfa_algorithms import print_nfa
    from .oracles import DfaView, NfaView
    job.functions('notebook_dfa', ['check_dfa_reverse'])
    d = E.dag
    D, names, syms = c.sym_dfa(n, k, tag='R')
    an = names + ['r']
    N, _, _ = c.sym_nfa(len(an), k, eps='_', tag='A', names=an, partial=False)
    N.q0 = 'r'
    vd, vn = DfaView(D, names, syms), NfaView(N, an, syms)
    job.inputs.update({'D': D, 'answer': N})
    job.decoders.update({'D': vd.to_json, 'answer': vn.to_json})
    rp = ('reverse', {'D': vd.to_json, 'answer': vn.to_json, 'length': length})
    ev = run_checker(ND.check_dfa_reverse, print_dfa(D), print_nfa(N), length)
    job.lifted()
    ok = said_ok(ev)
    words = c.words_upto(syms, length)
    ans = {w: vn.accepts(w) for w in words}
    ref = {w: vd.accepts(w[::-1]) for w in words}
    job.oblige('OK only if L(answer) is the mirror image of L(D) on all words up to the length bound',
               d.and_(ok, d.any_(d.iff(ans[w], ref[w]) ^ 1 for w in words)), replay=rp)
    word_feedback_obligations(job, ev, words, ans, ref, rp, 'check_dfa_reverse')
    job.must_reach('OK is printed for some answer', ok)
    job.failures_as_obligations(replay=rp)
    job.sample_replays = 3
    return job.solve()


# ------------------------------------------------------------------------------------------ minimal
MINIMAL_REFS = {
    # concrete reference DFAs (cube splitting over the reference: dfa_quotient on a parsed symbolic DFA does not lift in
    # reasonable time); they include equivalent states, unreachable states, a single class, and an already minimal DFA
    'two_equiv_of_three': {'Q': ['q0', 'q1', 'q2'], 'Sigma': ['a', 'b'], 'q0': 'q0', 'F': ['q1', 'q2'],
                           'delta': [['q0', 'a', 'q1'], ['q0', 'b', 'q2'], ['q1', 'a', 'q2'], ['q1', 'b', 'q1'], ['q2', 'a', 'q1'], ['q2', 'b', 'q2']]},
    'unreachable_state': {'Q': ['q0', 'q1', 'q2'], 'Sigma': ['a'], 'q0': 'q0', 'F': ['q1'],
                          'delta': [['q0', 'a', 'q1'], ['q1', 'a', 'q0'], ['q2', 'a', 'q2']]},
    'all_accepting': {'Q': ['q0', 'q1'], 'Sigma': ['a', 'b'], 'q0': 'q0', 'F': ['q0', 'q1'],
                      'delta': [['q0', 'a', 'q1'], ['q0', 'b', 'q0'], ['q1', 'a', 'q0'], ['q1', 'b', 'q1']]},
    'already_minimal': {'Q': ['q0', 'q1', 'q2'], 'Sigma': ['a'], 'q0': 'q0', 'F': ['q2'],
                        'delta': [['q0', 'a', 'q1'], ['q1', 'a', 'q2'], ['q2', 'a', 'q0']]},
    'mod2_in_four': {'Q': ['q0', 'q1', 'q2', 'q3'], 'Sigma': ['a'], 'q0': 'q0', 'F': ['q0', 'q2'],
                     'delta': [['q0', 'a', 'q1'], ['q1', 'a', 'q2'], ['q2', 'a', 'q3'], ['q3', 'a', 'q0']]},
}


def job_minimal(job, ref, m, length):
    import gambatools.notebook_dfa as ND
    from gambatools.dfa_algorithms import print_dfa
    from .oracles import DfaView
    from .C04 import ref_classes
    job.functions('notebook_dfa', ['check_dfa_minimal'])
    job.functions('dfa_algorithms', ['dfa_quotient'])
    d = E.dag
    Dj = MINIMAL_REFS[ref]
    syms = Dj['Sigma']
    an = ['{%s}' % ','.join(Dj['Q'][:i + 1]) if i else Dj['Q'][0] for i in range(m)]     # word or set labels
    A, _, _ = c.sym_dfa(m, len(syms), tag='A', names=an, syms=syms)
    va = DfaView(A, an, syms)
    job.inputs.update({'answer': A})
    job.decoders.update({'answer': va.to_json})
    job.result['notes'].append('reference DFA (concrete): %r' % (Dj,))
    rp = ('minimal', {'D': Dj, 'answer': va.to_json, 'length': length})
    ref_text = c.native('dfa_algorithms').print_dfa(nat.mk_dfa(Dj, c.native('dfa')))
    ev = run_checker(ND.check_dfa_minimal, ref_text, print_dfa(A), length)
    job.lifted()
    ok = said_ok(ev)
    words = c.words_upto(syms, length)
    ans = {w: va.accepts(w) for w in words}
    ref_acc = {w: (TRUE if nat.ref_dfa_accepts(Dj, w) else FALSE) for w in words}
    n_all, _ = ref_classes(Dj, False)
    n_reach, _ = ref_classes(Dj, True)
    size_bad = FALSE if n_reach <= m <= n_all else TRUE
    job.oblige('OK only if the answer has the language of the reference up to the length bound and a number of states between the '
               'numbers of Myhill-Nerode classes of the reachable (%d) and of all (%d) reference states' % (n_reach, n_all),
               d.and_(ok, d.or_(size_bad, d.any_(d.iff(ans[w], ref_acc[w]) ^ 1 for w in words))), replay=rp)
    word_feedback_obligations(job, ev, words, ans, ref_acc, rp, 'check_dfa_minimal')
    job.must_reach('something is printed', said(ev, lambda t: True))
    job.failures_as_obligations(replay=rp)
    job.sample_replays = 3
    return job.solve()


# ------------------------------------------------------------------------------------------ NFA -> DFA
def job_nfa2dfa(job, k, length, eps='_'):
    import gambatools.notebook_nfa2dfa as NN
    from gambatools.nfa_algorithms import print_nfa
    from .oracles import NfaView
    job.functions('notebook_nfa2dfa', ['check_nfa2dfa', 'check_nfa_to_dfa_answer'])
    d = E.dag
    N, names, syms = c.sym_nfa(2, k, eps=eps, tag='R', partial=False)
    vn = NfaView(N, names, syms)
    sn = ['{}', '{q0}', '{q1}', '{q0,q1}']
    # answer: a total deterministic table over the subset names plus ONE optional extra edge (any label incl. epsilon)
    from gambatools.nfa import NFA
    delta = L.GDict(default_factory=L.GSet)
    tgt = {}
    for s in sn:
        for a in syms:
            t = c.choice(sn, 'A_%s_%s' % (s, a))
            tgt[(s, a)] = c.alt_map(t)
    xe = E.fresh('extra_edge')
    xs, xa, xt = c.alt_map(c.choice(sn, 'xs')), c.alt_map(c.choice(syms + [eps], 'xa')), c.alt_map(c.choice(sn, 'xt'))
    for s in sn:
        for a in syms + [eps]:
            cell = L.GSet()
            for t in sn:
                base = tgt[(s, a)][t] if a != eps else FALSE
                cell.m[t] = d.or_(base, d.all_([xe, xs[s], xa[a], xt[t]]))
            delta.m[(s, a)] = [TRUE, cell]
    F = L.GSet()
    fb = {}
    for s in sn:
        fb[s] = E.fresh('AF_%s' % s)
        F.m[s] = fb[s]
    q0 = c.choice(sn, 'Aq0')
    A = NFA(L.GSet(sn), L.GSet(syms), delta, q0, F, eps)
    va = NfaView(A, sn, syms)
    job.inputs.update({'N': N, 'answer': A})
    job.decoders.update({'N': vn.to_json, 'answer': va.to_json})
    rp = ('nfa2dfa', {'N': vn.to_json, 'answer': va.to_json, 'length': length})
    ev = run_checker(NN.check_nfa2dfa, print_nfa(N), print_nfa(A))
    job.lifted()
    ok = said_ok(ev)
    words = c.words_upto(syms, length)
    ans = {w: va.accepts(w) for w in words}
    ref = {w: vn.accepts(w) for w in words}
    eps_edge = d.and_(xe, xa[eps])
    nondet = d.and_(xe, d.any_(d.all_([xs[s], xa[a], xt[t], tgt[(s, a)][t] ^ 1]) for s in sn for a in syms for t in sn))
    job.oblige('OK only if the answer is deterministic, has no epsilon transition and accepts exactly the words of the NFA up to the length bound',
               d.and_(ok, d.any_([eps_edge, nondet, d.any_(d.iff(ans[w], ref[w]) ^ 1 for w in words)])), replay=rp)
    # initial state stands for the epsilon closure of q0
    C = vn.closure()
    init_ok = d.any_(d.and_(c.alt_map(q0)[s], d.all_(d.iff(C[names[0], q], TRUE if q in s[1:-1].split(',') else FALSE) for q in names)) for s in sn)
    job.oblige('OK only if the initial state of the answer is the epsilon closure of the initial state', d.and_(ok, init_ok ^ 1), replay=rp)
    job.must_reach('OK is printed for some answer', ok)
    job.failures_as_obligations(replay=rp)
    job.sample_replays = 3
    return job.solve()


# ------------------------------------------------------------------------------------------ language from words / accepts-rejects
def job_from_words(job, n, k, word_list, length, max_states):
    import gambatools.notebook as NB
    from gambatools.dfa_algorithms import print_dfa
    from .oracles import DfaView
    job.functions('notebook', ['check_language_from_words', 'check_dfa_language_from_words', 'check_max_states', 'print_feedback'])
    job.functions('language_algorithms', ['parse_word_list'])
    d = E.dag
    A, names, syms = c.sym_dfa(n, k, tag='A')
    va = DfaView(A, names, syms)
    garbage = E.fresh('garbage')
    job.inputs['answer'] = A
    job.decoders['answer'] = va.to_json
    job.inputs['garbage_line'] = L.SB(garbage)
    rp = ('from_words', {'answer': va.to_json, 'word_list': word_list, 'length': length, 'max_states': max_states, 'garbage': lambda mv: bool(mv(garbage))})
    ev = run_checker(NB.check_dfa_language_from_words, with_garbage(print_dfa(A), garbage), word_list, length, max_states)
    job.lifted()
    ok = said_ok(ev)
    ref_words = set('' if w in ('ε', '_') else w for w in word_list.split())
    words = sorted(set(c.words_upto(syms, length)) | ref_words, key=lambda w: (len(w), w))
    ans = {w: (va.accepts(w) if len(w) <= length and all(ch in syms for ch in w) else FALSE) for w in words}
    ref = {w: (TRUE if w in ref_words else FALSE) for w in words}
    too_many = TRUE if 0 < max_states < n else FALSE
    job.oblige('OK only if the words accepted up to the length bound are exactly the listed words and the state limit is respected',
               d.and_(ok, d.any_([garbage, too_many, d.any_(d.iff(ans[w], ref[w]) ^ 1 for w in words)])), replay=rp)
    word_feedback_obligations(job, ev, words, ans, ref, rp, 'check_dfa_language_from_words')
    job.must_reach('something is printed', said(ev, lambda t: True))
    job.failures_as_obligations(replay=rp)
    job.sample_replays = 3
    return job.solve()


def job_accepts_rejects(job, n, k, accepted, rejected):
    import gambatools.notebook as NB
    from gambatools.dfa_algorithms import print_dfa
    from .oracles import DfaView
    job.functions('notebook', ['check_dfa_accepts_rejects', 'check_automaton_accepts_rejects'])
    d = E.dag
    A, names, syms = c.sym_dfa(n, k, tag='A')
    va = DfaView(A, names, syms)
    job.inputs['answer'] = A
    job.decoders['answer'] = va.to_json
    rp = ('accepts_rejects', {'answer': va.to_json, 'accepted': accepted, 'rejected': rejected})
    ev = run_checker(NB.check_dfa_accepts_rejects, print_dfa(A), accepted, rejected)
    job.lifted()
    ok = said_ok(ev)
    norm = lambda s: ['' if w in ('ε', '_') else w for w in s.split()]
    acc, rej = norm(accepted), norm(rejected)
    crit = d.and_(d.all_(va.accepts(w) for w in acc), d.all_(va.accepts(w) ^ 1 for w in rej))
    job.oblige('OK only if every listed word is accepted / rejected as required', d.and_(ok, crit ^ 1), replay=rp)
    msgs = messages(ev)
    for w in set(acc) | set(rej):
        shown = w if w else 'ε'
        job.oblige("word %r reported 'should be accepted' only if listed as accepted and rejected by the answer" % w,
                   d.and_(msgs.get("Error: word '%s' should be accepted" % shown, FALSE), (va.accepts(w) ^ 1 if w in acc else FALSE) ^ 1), replay=rp)
        job.oblige("word %r reported 'should not be accepted' only if listed as rejected and accepted by the answer" % w,
                   d.and_(msgs.get("Error: word '%s' should not be accepted" % shown, FALSE), (va.accepts(w) if w in rej else FALSE) ^ 1), replay=rp)
    job.must_reach('OK is printed for some answer', ok)
    job.failures_as_obligations(replay=rp)
    job.sample_replays = 3
    return job.solve()


# ------------------------------------------------------------------------------------------ DFA -> regexp answer
def job_dfa2regexp(job, n, k, shape, length):
    import gambatools.notebook as NB
    import gambatools.regexp as R
    from gambatools.dfa_algorithms import print_dfa
    from .oracles import DfaView
    from .regexp_sym import shaped, Sem, regexp_json
    from .C05 import _tup
    job.functions('notebook', ['check_dfa2regexp'])
    job.functions('language_generator', ['check_equal_languages', 'generate_language', 'compare_languages'])
    d = E.dag
    c.set_exhaustive(14)
    D, names, syms = c.sym_dfa(n, k, tag='R')
    vd = DfaView(D, names, syms)
    r = shaped(_tup(shape), syms)
    dec = lambda mv: regexp_json(r, mv)
    job.inputs.update({'D': D, 'answer': r})
    job.decoders.update({'D': vd.to_json, 'answer': dec})
    rp = ('dfa2regexp', {'D': vd.to_json, 'answer': dec, 'length': length})
    text = R.print_regexp_simple(r)
    ev = run_checker(NB.check_dfa2regexp, print_dfa(D), text, length)
    job.lifted()
    ok = said_ok(ev)
    sem = Sem()
    words = c.words_upto(syms, length)
    ans = {w: sem.member(r, w) for w in words}
    ref = {w: vd.accepts(w) for w in words}
    job.oblige('OK only if the expression denotes exactly the words the DFA accepts up to the length bound',
               d.and_(ok, d.any_(d.iff(ans[w], ref[w]) ^ 1 for w in words)), replay=rp)
    word_feedback_obligations(job, ev, words, ans, ref, rp, 'check_dfa2regexp')
    job.must_reach('something is printed', said(ev, lambda t: True))
    job.failures_as_obligations(replay=rp)
    job.sample_replays = 3
    return job.solve()


# ------------------------------------------------------------------------------------------ Chomsky phases
CHOMSKY_EXTRAS = [('A', 'b'), ('S', 'A'), ('A', ''), ('S', 'aSb')]


def job_chomsky_checker(job, family, phase, nsym=4, length=3):
    """cfg_check_chomsky as a judge: the submitted grammar is the correct phase result (computed by the library) plus any
    subset of four extra rules (a rule that enlarges the language, a unit rule, an epsilon rule, a long rule)"""
    import gambatools.notebook_chomsky as NC
    from gambatools.cfg_algorithms import cfg_print_simple
    from .cfg_sym import sym_cfg, entries_json, read_cfg, GrammarSem, is_var
    from .C08 import FAMILIES, post_bad
    from .C13 import nondegenerate
    job.functions('notebook_chomsky', ['cfg_check_chomsky', 'check_cfg_has_start_variable', 'check_cfg_has_no_epsilon_rules',
                                       'check_cfg_has_no_unit_productions', 'check_cfg_has_right_hand_sides_of_length_at_most_two', 'check_cfg_is_chomsky'])
    d = E.dag
    c.set_exhaustive(12)
    terminals = ['a', 'b']
    variables, fixed, symbolic = FAMILIES[family]
    symbolic = symbolic[:nsym]
    cands = [(X, tuple(r)) for X, r in fixed] + [(X, tuple(r)) for X, r in symbolic]
    G, entries = sym_cfg(variables, terminals, cands, variables[0], fixed=[(X, tuple(r)) for X, r in fixed])
    has_rule = {v: d.any_(bit for bit, X, rhs in entries if X == v) for v in variables}
    uses = {t: d.any_(bit for bit, X, rhs in entries if t in rhs) for t in terminals}
    first_is_start, seen = TRUE, FALSE
    for bit, X, rhs in entries:
        if X != variables[0]:
            first_is_start = d.and_(first_is_start, d.or_(bit ^ 1, seen))
        else:
            seen = d.or_(seen, bit)
    E.assumptions.append(d.all_(list(has_rule.values()) + list(uses.values()) + [first_is_start, nondegenerate(entries, variables)]))
    E.while_bound = 60
    xb = [E.fresh('extra_%s_%s' % (X, r or 'eps')) for X, r in CHOMSKY_EXTRAS]
    dec0 = entries_json(entries, variables, terminals, variables[0])
    dec = lambda mv: dict(dec0(mv), extras=[[X, r] for b, (X, r) in zip(xb, CHOMSKY_EXTRAS) if mv(b)], phase=phase)
    job.inputs['exercise'] = None
    job.decoders['exercise'] = dec
    rp = ('chomsky_checker', {'x': dec, 'length': length})
    ref_text = cfg_print_simple(G)
    G1 = job.call(NC.cfg_apply_chomsky, G, phase, 'Z', replay=rp)
    if G1 is None:
        job.lifted()
        return job.solve()
    base = cfg_print_simple(G1)
    answer = L.GStr([(TRUE, E.lift(lambda t: t + '\n', [base]))] + [(b, '%s -> %s\n' % (X, r or 'ε')) for b, (X, r) in zip(xb, CHOMSKY_EXTRAS)])
    ev = run_checker(NC.cfg_check_chomsky, ref_text, answer, phase, 'Z', length)
    job.lifted()
    ok = said_ok(ev)
    ans_entries = [(lit, X, rhs) for lit, X, rhs, kinds in read_cfg(G1)] + [(b, X, tuple(r)) for b, (X, r) in zip(xb, CHOMSKY_EXTRAS)]
    ans_vars = sorted(set(X for _, X, _ in ans_entries) | set(s_ for _, _, rhs in ans_entries for s_ in rhs if is_var(s_)))
    words = c.words_upto(terminals, length)
    diff = []
    for w in words:
        r_ = GrammarSem(entries, variables, w, fold=True).derives(variables[0])
        a_ = GrammarSem(ans_entries, ans_vars, w, fold=True).derives('Z' if phase >= 1 else variables[0])
        diff.append(d.iff(r_, a_) ^ 1)
    kinds_of = lambda rhs: tuple('Variable' if is_var(s_) else 'Terminal' for s_ in rhs)
    pb = post_bad([(lit, X, rhs, kinds_of(rhs)) for lit, X, rhs in ans_entries], {'Z': TRUE}, phase, variables)
    struct_bad = d.any_(pb[p_] for p_ in range(2, phase + 1))      # phase 1 (start variable) holds by construction
    job.oblige('OK only if the submitted grammar has the language of the reference on all words up to the length bound and satisfies '
               'the postconditions of phases 2..%d' % phase, d.and_(ok, d.or_(d.any_(diff), struct_bad)), replay=rp)
    job.must_reach('OK is printed for some submission', ok)
    job.must_reach('an error is printed for some submission', said(ev, lambda t: t.startswith('Error')))
    job.failures_as_obligations(replay=rp)
    job.sample_replays = 3
    return job.solve()


# ------------------------------------------------------------------------------------------ CYK table
CYK_RULES = [('S', 'AB'), ('A', 'a'), ('B', 'b'), ('S', 'BA'), ('A', 'b'), ('B', 'a'), ('S', 'a'), ('A', 'AS')]
CYK_FIXED = 3


def job_cyk_checker(job, word):
    """check_cyk_matrix: CNF grammar with five symbolic rules; the submitted table has an arbitrary subset of {S, A, B} in
    every cell (triangular layout as the notebook prints it)"""
    import itertools as it
    import gambatools.notebook_cfg as NC
    from .cfg_sym import GrammarSem
    job.functions('notebook_cfg', ['check_cyk_matrix'])
    job.functions('cfg_algorithms', ['cfg_cyk_matrix', 'parse_simple_cfg'])
    d = E.dag
    c.set_exhaustive(16)
    variables = ['S', 'A', 'B']
    bits = [TRUE] * CYK_FIXED + [E.fresh('rule_%s_%s' % (X, r)) for X, r in CYK_RULES[CYK_FIXED:]]
    entries = [(b, X, tuple(r)) for b, (X, r) in zip(bits, CYK_RULES)]
    cfg_text = L.GStr([(b, '%s -> %s\n' % (X, r)) for b, (X, r) in zip(bits, CYK_RULES)])
    n = len(word)
    cell = {}
    for i in range(n):
        for j in range(i, n):
            cell[(i, j)] = {V_: E.fresh('cell_%d_%d_%s' % (i, j, V_)) for V_ in variables}

    def entry_text(i, j):
        alts = []
        for mask in it.product([0, 1], repeat=len(variables)):
            g = d.all_(cell[(i, j)][V_] if m else cell[(i, j)][V_] ^ 1 for m, V_ in zip(mask, variables))
            alts.append((g, '{' + ','.join(V_ for m, V_ in zip(mask, variables) if m) + '}'))
        return alts
    lines = []
    for row in range(n):           # row 0: the single cell (0, n-1); last row: the diagonal
        span = n - 1 - row
        cells = [(j, j + span) for j in range(n - span)]
        alts = [(TRUE, '')]
        for (i, j) in cells:
            alts = [(d.and_(g, h), (t + ' ' + e).strip()) for g, t in alts for h, e in entry_text(i, j)]
        lines.append((TRUE, E.mk([(g, t + '\n') for g, t in alts if g != FALSE])))
    answer = L.GStr(lines)
    dec = lambda mv: {'rules': [list(r) for b, r in zip(bits, CYK_RULES) if mv(b)], 'word': word,
                      'table': {'%d,%d' % k: [V_ for V_ in variables if mv(cell[k][V_])] for k in cell}}
    job.inputs['exercise'] = None
    job.decoders['exercise'] = dec
    rp = ('cyk_checker', {'x': dec})
    ev = run_checker(NC.check_cyk_matrix, cfg_text, word, answer)
    job.lifted()
    ok = said_ok(ev)
    sem = GrammarSem(entries, variables, word)
    wrong = d.any_(d.iff(cell[(i, j)][V_], sem.derives(V_, i, j + 1)) ^ 1 for (i, j) in cell for V_ in variables)
    job.oblige('OK only if every cell of the submitted table equals the set of variables that derive the subword', d.and_(ok, wrong), replay=rp)
    job.must_reach('OK is printed for some table', ok)
    job.must_reach('an error is printed for some table', said(ev, lambda t: t.startswith('Error')))
    job.failures_as_obligations(replay=rp)
    job.sample_replays = 3
    return job.solve()


# ------------------------------------------------------------------------------------------ derivations
DERIV_CANDS = [('S', 'a'), ('S', 'SS'), ('S', 'b'), ('A', 'a'), ('B', 'b'), ('S', 'AB'), ('S', 'aS')]
DERIV_FORMS = [['SS', 'AB', 'aS'], ['aS', 'Sb', 'Ab', 'aB', 'ab'], ['ab', 'aS', 'ba']]
DERIV_FIXED = 5      # the first five candidate rules are always present; S -> AB and S -> aS are symbolic


def job_derivation(job, dtype, word='ab'):
    """check_cfg_derivation: grammar = fixed first rule S -> a plus six candidate rules (present or not); the submitted
    derivation S => f1 => f2 [=> f3] has every form chosen symbolically from a list of candidates"""
    import gambatools.notebook_cfg as NC
    job.functions('notebook_cfg', ['check_cfg_derivation', 'cfg_has_derivation', 'cfg_apply_rule'])
    job.functions('algorithms', ['last_index', 'first_index'])
    d = E.dag
    c.set_exhaustive(14)
    bits = [TRUE] * DERIV_FIXED + [E.fresh('rule_%s_%s' % (X, r)) for X, r in DERIV_CANDS[DERIV_FIXED:]]
    # every variable and terminal of the grammar must occur: A -> a and B -> b and S -> b are needed for V / Sigma to be stable
    cfg_text = L.GStr([(b, '%s -> %s\n' % (X, r)) for b, (X, r) in zip(bits, DERIV_CANDS)])
    texts = []
    for a in DERIV_FORMS[0]:
        for b in DERIV_FORMS[1]:
            texts.append(['S', a, b])
            for cc in DERIV_FORMS[2]:
                texts.append(['S', a, b, cc])
    texts += [['S', 'a'], ['S'], ['SS', 'aS', 'ab'], ['S', 'ab']]
    # cube splitting over the submitted text: one lifted run of the checker per candidate derivation (the union of all
    # candidate texts as ONE symbolic string does not lift: str.split / map over a union of strings of different shapes);
    # the grammar stays symbolic
    runs = []
    for fs in texts:
        runs.append((fs, run_checker(NC.check_cfg_derivation, cfg_text, ' => '.join(fs), word, dtype)))
    job.lifted()
    dec = lambda mv: {'rules': [list(r) for b, r in zip(bits, DERIV_CANDS) if mv(b)], 'type': dtype, 'word': word}
    job.inputs['grammar'] = None
    job.decoders['grammar'] = dec
    mentioned = lambda ch: d.any_(b for b, (X, r) in zip(bits, DERIV_CANDS) if ch == X or ch in r)
    oks = []
    for fs, ev in runs:
        ok = said_ok(ev)
        oks.append(ok)
        steps = nat.derivation_justifications(DERIV_CANDS, fs, 'S', word, dtype)
        if steps is None:
            valid = FALSE
        else:
            syms_ok = d.all_(mentioned(ch) for f in fs for ch in set(f))
            valid = d.all_([syms_ok] + [d.any_(bits[i] for i in just) for just in steps])
        text = ' => '.join(fs)
        rp = ('derivation', {'x': (lambda t: (lambda mv: dict(dec(mv), derivation=t)))(text)})
        job.oblige('OK for %r only if it is a %s derivation of %r from S in the grammar' % (text, dtype, word), d.and_(ok, valid ^ 1), replay=rp)
    job.must_reach('OK is printed for some derivation', d.any_(oks))
    job.must_reach('OK is not printed for some derivation', d.any_(o ^ 1 for o in oks))
    job.failures_as_obligations(replay=('derivation', {'x': lambda mv: dict(dec(mv), derivation='S => a')}))
    job.sample_replays = 3
    return job.solve()


# ------------------------------------------------------------------------------------------ generic language checkers
# check_<kind>_language_from_file / _from_words for DFA, NFA, regexp and grammar answers against DFA, NFA, regexp or
# word-list references; check_cfg_accepts_rejects, notebook_experimental.check_cfg_accepts / check_cfg_rejects
FILES = {}
LANG_FAMILIES = {
    # (variables, fixed rules (start rule first), symbolic candidate rules)
    'ab': (['S', 'A'], [('S', 'aA')], [('S', ''), ('A', 'b'), ('A', 'aA'), ('S', 'SS'), ('A', ''), ('S', 'b'), ('A', 'S')]),
    'double': (['S', 'A', 'B'], [('S', 'aAb')], [('A', 'BB'), ('B', ''), ('B', 'b'), ('A', 'a'), ('S', 'ab'), ('B', 'A')]),
    'nest': (['S', 'T'], [('S', 'aSb')], [('S', ''), ('S', 'T'), ('T', 'a'), ('T', 'TT'), ('S', 'ab'), ('T', ''), ('S', 'ba')]),
}


def _stub_files():
    import gambatools.notebook as NB
    NB.read_utf8_text = lambda filename: FILES[filename]


def _sym_lang(kind, spec, tag, syms):
    """symbolic language object -> dict(text, acc(w) literal, json decoder, nstates)"""
    from .oracles import DfaView, NfaView
    if kind == 'dfa':
        from gambatools.dfa_algorithms import print_dfa
        D, names, _ = c.sym_dfa(spec['n'], len(syms), tag=tag, syms=list(syms))
        v = DfaView(D, names, list(syms))
        return {'obj': D, 'text': print_dfa(D), 'acc': v.accepts, 'json': v.to_json, 'nstates': spec['n']}
    if kind == 'nfa':
        from gambatools.nfa_algorithms import print_nfa
        N, names, _ = c.sym_nfa(spec['n'], len(syms), eps=spec.get('eps', '_'), tag=tag, partial=False, syms=list(syms))
        v = NfaView(N, names, list(syms))
        return {'obj': N, 'text': print_nfa(N), 'acc': v.accepts, 'json': v.to_json, 'nstates': spec['n']}
    if kind == 'regexp':
        import gambatools.regexp as R
        from .regexp_sym import shaped, Sem, regexp_json
        from .C05 import _tup
        r = shaped(_tup(spec['shape']), list(syms), tag=tag)
        sem = Sem()
        return {'obj': r, 'text': R.print_regexp_simple(r), 'acc': lambda w: sem.member(r, w), 'json': lambda mv: regexp_json(r, mv), 'nstates': 0}
    if kind == 'cfg':
        from .cfg_sym import GrammarSem
        variables, fixed, symbolic = LANG_FAMILIES[spec['family']]
        symbolic = symbolic[:spec.get('nsym', 6)]
        entries = [(TRUE, X, tuple(r)) for X, r in fixed] + [(E.fresh('%s%d_%s_%s' % (tag, i, X, r or 'eps')), X, tuple(r)) for i, (X, r) in enumerate(symbolic)]
        eps = spec.get('eps', 'ε')
        text = L.GStr([(bit, '%s -> %s\n' % (X, ''.join(rhs) or eps)) for bit, X, rhs in entries])
        js = lambda mv: {'V': list(variables), 'Sigma': list(syms), 'S': variables[0], 'R': [[X, list(rhs)] for bit, X, rhs in entries if mv(bit)], 'eps': eps}
        return {'obj': None, 'text': text, 'acc': lambda w: GrammarSem(entries, variables, w).derives(variables[0]), 'json': js, 'nstates': 0}
    raise ValueError(kind)


def _parse_words(word_list):
    return set('' if w in ('ε', '_') else w for w in word_list.split())


def job_lang(job, front, ans, ref, syms, length, max_states=0, garbage=True, first_length=None):
    """front: 'from_file' | 'from_words'; ans = [kind, spec]; ref = [kind, spec] or ['words', 'word list']"""
    import gambatools.notebook as NB
    job.functions('notebook', ['check_language_from_file', 'check_language_from_words', 'language_parser', 'check_max_states', 'print_feedback',
                               'check_%s_language_%s' % (ans[0], front)])
    job.functions('language_generator', ['check_equal_languages', 'generate_language', 'compare_languages'])
    d = E.dag
    c.set_exhaustive(14)
    E.while_bound = 60
    syms = list(syms)
    a = _sym_lang(ans[0], ans[1], 'A', syms)
    gb = E.fresh('garbage') if garbage and ans[0] in ('dfa', 'nfa') else FALSE
    atext = with_garbage(a['text'], gb) if gb != FALSE else a['text']
    job.inputs['answer'] = a['obj']
    job.decoders['answer'] = a['json']
    rpd = {'front': front, 'ans_kind': ans[0], 'answer': a['json'], 'syms': syms, 'length': length, 'max_states': max_states,
           'garbage': (lambda mv: bool(mv(gb))) if gb != FALSE else False}
    words = c.words_upto(syms, length)
    if front == 'from_file':
        _stub_files()
        r = _sym_lang(ref[0], ref[1], 'R', syms)
        fname = 'ref.' + ref[0]
        FILES[fname] = r['text']
        job.inputs['reference'] = r['obj']
        job.decoders['reference'] = r['json']
        rpd.update({'ref_kind': ref[0], 'reference': r['json']})
        refacc = {w: r['acc'](w) for w in words}
        fn = getattr(NB, 'check_%s_language_from_file' % ans[0])
        if first_length is not None:
            # call history: the same reference file was checked before with another length bound (a verdict or reference
            # language remembered per file name would be stale now)
            rpd['first_length'] = first_length
            run_checker(fn, atext, fname, first_length)
        rp = ('lang', rpd)
        ev = run_checker(fn, atext, fname, length)
    else:
        refw = _parse_words(ref[1])
        rpd.update({'ref_kind': 'words', 'reference': ref[1]})
        words = sorted(set(words) | refw, key=lambda w: (len(w), w))
        refacc = {w: (TRUE if w in refw else FALSE) for w in words}
        fn = getattr(NB, 'check_%s_language_from_words' % ans[0])
        rp = ('lang', rpd)
        if ans[0] in ('dfa', 'nfa'):
            ev = run_checker(fn, atext, ref[1], length, max_states)
        else:
            ev = run_checker(fn, atext, ref[1], length)
    job.lifted()
    ok = said_ok(ev)
    import os
    if os.environ.get('C12_DEBUG'):
        print('DEBUG messages', list(messages(ev).keys()), [(k, m[:80]) for _, k, m in E.errors][:5], file=__import__('sys').stderr)
    inb = lambda w: len(w) <= length and all(ch in syms for ch in w)
    ansacc = {w: (a['acc'](w) if inb(w) else FALSE) for w in words}
    too_many = TRUE if (ans[0] in ('dfa', 'nfa') and front == 'from_words' and 0 < max_states < a['nstates']) else FALSE
    job.oblige('OK only if answer and reference agree on every word up to the length bound (and the answer is well-formed and within the state limit)',
               d.and_(ok, d.any_([gb, too_many, d.any_(d.iff(ansacc[w], refacc[w]) ^ 1 for w in words)])), replay=rp)
    word_feedback_obligations(job, ev, words, ansacc, refacc, rp, fn.__name__)
    job.must_reach('something is printed', said(ev, lambda t: True))
    job.must_reach('OK is printed for some answer', ok)
    job.failures_as_obligations(replay=rp)
    job.sample_replays = 3
    return job.solve()


def job_cfg_lists(job, front, family, accepted, rejected, nsym=6):
    """check_cfg_accepts_rejects / notebook_experimental.check_cfg_accepts / check_cfg_rejects on a symbolic grammar text"""
    import gambatools.notebook as NB
    import gambatools.notebook_experimental as NX
    job.functions('notebook', ['check_cfg_accepts_rejects', 'check_automaton_accepts_rejects'])
    job.functions('notebook_experimental', ['check_cfg_accepts', 'check_cfg_rejects'])
    d = E.dag
    c.set_exhaustive(14)
    E.while_bound = 60
    syms = ['a', 'b']
    a = _sym_lang('cfg', {'family': family, 'nsym': nsym}, 'A', syms)
    job.inputs['answer'] = None
    job.decoders['answer'] = a['json']
    if front == 'accepts':
        rejected = ''
    elif front == 'rejects':
        accepted = ''
    rp = ('cfg_lists', {'front': front, 'answer': a['json'], 'accepted': accepted, 'rejected': rejected})
    if front == 'accepts_rejects':
        ev = run_checker(NB.check_cfg_accepts_rejects, a['text'], accepted, rejected)
    elif front == 'accepts':
        ev = run_checker(NX.check_cfg_accepts, a['text'], accepted)
    else:
        ev = run_checker(NX.check_cfg_rejects, a['text'], rejected)
    job.lifted()
    ok = said_ok(ev)
    acc = sorted(_parse_words(accepted)) if accepted.strip() else []
    rej = sorted(_parse_words(rejected)) if rejected.strip() else []
    A = {w: a['acc'](w) for w in set(acc) | set(rej)}
    crit = d.and_(d.all_(A[w] for w in acc), d.all_(A[w] ^ 1 for w in rej))
    job.oblige('OK only if every listed word is accepted / rejected as required (independent derivability oracle)', d.and_(ok, crit ^ 1), replay=rp)
    msgs = messages(ev)
    for w in set(acc) | set(rej):
        shown = w if w else 'ε'
        job.oblige("word %r reported 'should be accepted' only if listed as accepted and not derivable" % w,
                   d.and_(msgs.get("Error: word '%s' should be accepted" % shown, FALSE), (A[w] ^ 1 if w in acc else FALSE) ^ 1), replay=rp)
        job.oblige("word %r reported 'should not be accepted' only if listed as rejected and derivable" % w,
                   d.and_(msgs.get("Error: word '%s' should not be accepted" % shown, FALSE), (A[w] if w in rej else FALSE) ^ 1), replay=rp)
    job.must_reach('OK is printed for some answer', ok)
    job.must_reach('a complaint is printed for some answer', said(ev, lambda t: t != 'OK'))
    # check_cfg_rejects has no try/except: an ill-formed grammar (a variable without rules) makes it raise RuntimeError, which is
    # not an OK verdict and therefore no violation of the property
    job.failures_as_obligations(replay=rp, ignore=lambda kind, msg: kind == 'RuntimeError')
    job.sample_replays = 3
    return job.solve()


# ------------------------------------------------------------------------------------------ automata_checker front end
def job_automata_checker(job, kind, n, k, language, length):
    """automata_checker.check_dfa_for_given_language / check_nfa_for_given_language: the automaton arrives as Python lists and
    sets (as the web front end sends it), the verdict is a dict {'correct': ..., 'feedback': ...}"""
    import gambatools.automata_checker as AC
    from .oracles import DfaView, NfaView
    job.functions('automata_checker', ['check_dfa_for_given_language', 'check_nfa_for_given_language', '_compare_words'])
    d = E.dag
    if kind == 'dfa':
        A, names, syms = c.sym_dfa(n, k, tag='A')
        view = DfaView(A, names, syms)
        trans = L.GList([(q, a, A.delta.m[(q, a)][1]) for q in names for a in syms])
    else:
        A, names, syms = c.sym_nfa(n, k, eps='', tag='A', partial=False)
        for q in names:             # no epsilon moves: the list interface has no notation for them
            for t in names:
                A.delta.m[(q, '')][1].m[t] = FALSE
        view = NfaView(A, names, syms)
        trans = L.GList._guarded([(A.delta.m[(q, a)][1].m[t], (q, a, t)) for q in names for a in syms for t in names], sep=True)
    job.inputs['answer'] = A
    job.decoders['answer'] = view.to_json
    rp = ('automata_checker', {'kind': kind, 'answer': view.to_json, 'language': language, 'length': length})
    rp = (rp[0], {('ans_kind' if k_ == 'kind' else k_): v for k_, v in rp[1].items()})
    fn = AC.check_dfa_for_given_language if kind == 'dfa' else AC.check_nfa_for_given_language
    res = job.call(fn, L.GSet(names), trans, L.GSet([names[0]]), L._setview(A.F), language, length, replay=rp)
    job.lifted()
    if res is None:
        return job.solve()
    expected = set('' if w == 'ε' else w for w in language.split())
    words = sorted(set(c.words_upto(syms, length)) | expected, key=lambda w: (len(w), w))
    inb = lambda w: len(w) <= length and all(ch in syms for ch in w)
    acc = {w: (view.accepts(w) if inb(w) else FALSE) for w in words}
    exp = {w: (TRUE if w in expected else FALSE) for w in words}
    correct = E.lit(L.CMP('Eq', L.GETITEM(res, 'correct'), True))
    job.oblige("'correct': True only if the accepted words up to the length bound are exactly the listed words",
               d.and_(correct, d.any_(d.iff(acc[w], exp[w]) ^ 1 for w in words)), replay=rp)
    fb = L.CALLM(res, 'get', 'feedback', '')
    for g, text in E.alts(fb):
        if not isinstance(text, str) or not text.startswith("word '"):
            continue
        w = text.split("'")[1]
        w = '' if w == 'ε' else w
        if 'should not be accepted' in text:
            ok = d.and_(acc.get(w, FALSE), exp.get(w, FALSE) ^ 1)
        else:
            ok = d.and_(acc.get(w, FALSE) ^ 1, exp.get(w, FALSE))
        job.oblige('feedback %r only if that word really separates answer and word list with that polarity' % text, d.and_(g, ok ^ 1), replay=rp)
    job.must_reach("'correct': True for some answer", correct)
    job.must_reach("'correct': False for some answer", correct ^ 1)
    job.failures_as_obligations(replay=rp)
    job.sample_replays = 3
    return job.solve()


def jobs(tier):
    J = []

    def add(name, fn, timeout=None, **params):
        J.append({'name': name, 'fn': fn, 'params': params, **({'timeout': timeout} if timeout else {})})
    q = tier == 'quick'
    tmo = 600 if q else 3000
    add('compare_languages_L2', job_compare, maxlen=2, timeout=tmo)
    add('compare_languages_L3_a', job_compare, maxlen=4, syms='a', timeout=tmo)
    add('complement_n2_k2', job_complement, n=2, k=2, timeout=tmo)
    add('complement_n3_k1', job_complement, n=3, k=1, timeout=tmo)
    for op in ('union', 'intersection', 'symmetric_difference'):
        add('product_%s_k1' % op, job_product, op=op, k=1, length=3, timeout=tmo)
    add('reverse_n2_k1', job_reverse, n=2, k=1, length=3, timeout=tmo)
    for ref in MINIMAL_REFS:
        for m in (1, 2, 3):
            if q and m == 3 and len(MINIMAL_REFS[ref]['Sigma']) > 1:
                continue        # 17 input bits: two minutes each, thorough tier only
            add('minimal_%s_m%d' % (ref, m), job_minimal, ref=ref, m=m, length=4 if len(MINIMAL_REFS[ref]['Sigma']) == 1 else 3, timeout=tmo)
    add('nfa2dfa_k1', job_nfa2dfa, k=1, length=3, timeout=tmo)
    add('from_words_n2_k1', job_from_words, n=2, k=1, word_list='ε aa', length=3, max_states=0, timeout=tmo)
    add('from_words_n2_k2_max1', job_from_words, n=2, k=2, word_list='a b ab ba', length=2, max_states=1, timeout=tmo)
    add('from_words_n3_k1_long', job_from_words, n=3, k=1, word_list='_ aaa aaaaaa', length=4, max_states=3, timeout=tmo)
    add('accepts_rejects_n2_k2', job_accepts_rejects, n=2, k=2, accepted='ε ab abab', rejected='a b ba', timeout=tmo)
    add('accepts_rejects_n3_k1', job_accepts_rejects, n=3, k=1, accepted='a aaaa', rejected='_ aa aaa', timeout=tmo)
    for s in ([ 'I', 0], ['C', 0, ['I', 0]], ['S', 0, ['C', 0, 0]], ['I', ['S', 0, 0]]):
        from .C06 import _shape_name
        add('dfa2regexp_%s' % _shape_name(s), job_dfa2regexp, n=2, k=2 if len(str(s)) < 18 else 1, shape=s, length=3, timeout=tmo)
    # generic language checkers: every answer kind against every reference kind (file or word list)
    add('lang_file_dfa_vs_dfa', job_lang, front='from_file', ans=['dfa', {'n': 2}], ref=['dfa', {'n': 2}], syms='ab', length=3, timeout=tmo)
    add('lang_file_nfa_vs_dfa', job_lang, front='from_file', ans=['nfa', {'n': 2}], ref=['dfa', {'n': 2}], syms='a', length=3, timeout=tmo)
    add('lang_file_dfa_vs_nfa', job_lang, front='from_file', ans=['dfa', {'n': 2}], ref=['nfa', {'n': 2, 'eps': 'ε'}], syms='a', length=3, timeout=tmo)
    add('lang_file_regexp_vs_dfa', job_lang, front='from_file', ans=['regexp', {'shape': ['C', 0, ['I', 0]]}], ref=['dfa', {'n': 2}], syms='ab', length=3, timeout=tmo)
    add('lang_file_dfa_vs_regexp', job_lang, front='from_file', ans=['dfa', {'n': 2}], ref=['regexp', {'shape': ['S', 0, ['I', 0]]}], syms='ab', length=3, timeout=tmo)
    add('lang_file_cfg_vs_dfa', job_lang, front='from_file', ans=['cfg', {'family': 'ab', 'nsym': 5}], ref=['dfa', {'n': 2}], syms='ab', length=3, timeout=tmo)
    add('lang_file_dfa_vs_cfg', job_lang, front='from_file', ans=['dfa', {'n': 2}], ref=['cfg', {'family': 'nest', 'nsym': 5}], syms='ab', length=3, timeout=tmo)
    add('lang_file_dfa_vs_dfa_history', job_lang, front='from_file', ans=['dfa', {'n': 2}], ref=['dfa', {'n': 2}], syms='a', length=3, first_length=1, timeout=tmo)
    add('lang_file_dfa_vs_regexp_history', job_lang, front='from_file', ans=['dfa', {'n': 3}], ref=['regexp', {'shape': ['C', 0, ['I', 0]]}], syms='a', length=4, first_length=2, timeout=tmo)
    add('lang_file_dfa_vs_cfg_double', job_lang, front='from_file', ans=['dfa', {'n': 2}], ref=['cfg', {'family': 'double', 'nsym': 5}], syms='ab', length=3, timeout=tmo)
    add('lang_words_cfg_double', job_lang, front='from_words', ans=['cfg', {'family': 'double', 'nsym': 6}], ref=['words', 'ab abb aab abbb'], syms='ab', length=4, timeout=tmo)
    add('lang_words_nfa', job_lang, front='from_words', ans=['nfa', {'n': 2}], ref=['words', 'ε aa'], syms='a', length=3, max_states=2, timeout=tmo)
    add('lang_words_nfa_k2', job_lang, front='from_words', ans=['nfa', {'n': 2, 'eps': 'ε'}], ref=['words', 'a ab'], syms='ab', length=2, max_states=2, timeout=tmo)
    add('lang_words_regexp', job_lang, front='from_words', ans=['regexp', {'shape': ['C', 0, ['I', 0]]}], ref=['words', 'a ab abb'], syms='ab', length=3, timeout=tmo)
    add('lang_words_regexp_eps', job_lang, front='from_words', ans=['regexp', {'shape': ['I', ['S', 0, 0]]}], ref=['words', '_ a aa aaa'], syms='ab', length=3, timeout=tmo)
    add('lang_words_cfg', job_lang, front='from_words', ans=['cfg', {'family': 'ab', 'nsym': 6}], ref=['words', 'ab aab'], syms='ab', length=3, timeout=tmo)
    add('lang_words_cfg_nest', job_lang, front='from_words', ans=['cfg', {'family': 'nest', 'nsym': 6}], ref=['words', 'ε ab'], syms='ab', length=3, timeout=tmo)
    for fam, acc in (('ab', 'ab aab ε'), ('nest', 'ab aabb ε')):
        add('cfg_accepts_rejects_%s' % fam, job_cfg_lists, front='accepts_rejects', family=fam, accepted=acc, rejected='a ba abab', timeout=tmo)
        add('cfg_accepts_%s' % fam, job_cfg_lists, front='accepts', family=fam, accepted=acc.replace('ε', '_'), rejected='', timeout=tmo)
        add('cfg_rejects_%s' % fam, job_cfg_lists, front='rejects', family=fam, accepted='', rejected='_ b abab', timeout=tmo)
    add('automata_checker_dfa_n2_k1', job_automata_checker, kind='dfa', n=2, k=1, language='ε aa', length=3, timeout=tmo)
    add('automata_checker_dfa_n2_k2', job_automata_checker, kind='dfa', n=2, k=2, language='a ab ba', length=2, timeout=tmo)
    add('automata_checker_nfa_n2_k1', job_automata_checker, kind='nfa', n=2, k=1, language='a aaa', length=3, timeout=tmo)
    # job_chomsky_checker (cfg_check_chomsky judging wrong answers) is NOT registered: with four extra-rule bits on top of the
    # grammar bits the lifted cfg_to_chomsky + enumerator did not finish in 400 s (see DESIGN.md 9.3)
    add('cyk_checker_ab', job_cyk_checker, word='ab', timeout=tmo)
    add('cyk_checker_ba', job_cyk_checker, word='ba', timeout=tmo)
    for dtype in ('leftmost', 'rightmost', 'any'):
        add('derivation_%s' % dtype, job_derivation, dtype=dtype, timeout=tmo)
    if not q:
        # (fully symbolic two-symbol variants of the product / reverse / nfa2dfa jobs ran for more than 12 CPU-minutes each
        # without finishing; the thorough tier deepens the length bound and the reference sizes instead)
        for op in ('union', 'intersection', 'symmetric_difference'):
            add('product_%s_k1_L5' % op, job_product, op=op, k=1, length=5, timeout=tmo)
        add('reverse_n2_k1_L5', job_reverse, n=2, k=1, length=5, timeout=tmo)
        add('complement_n3_k2', job_complement, n=3, k=2, timeout=tmo)
        add('from_words_n3_k2', job_from_words, n=3, k=2, word_list='a ab abb', length=3, max_states=3, timeout=tmo)
        add('accepts_rejects_n4_k1', job_accepts_rejects, n=4, k=1, accepted='aaa', rejected='_ a aa aaaa', timeout=tmo)
        add('compare_languages_L5_a', job_compare, maxlen=5, syms='a', timeout=tmo)
    return J


# ------------------------------------------------------------------ native replay: run the real checker, capture stdout
def _capture(fn, *args):
    import io, contextlib
    buf = io.StringIO()
    with contextlib.redirect_stdout(buf):
        fn(*args)
    return [l for l in buf.getvalue().split('\n') if l]


def _verdict(lines, words, ans, ref, crit_ok):
    """-> (violated?, detail) from the printed lines, the reference / answer membership of every word and the criterion"""
    bad = []
    if 'OK' in lines and not crit_ok:
        bad.append('OK printed although the criterion does not hold')
    for l in lines:
        if l.startswith("Error: word '"):
            w = l.split("'")[1]
            w = '' if w == 'ε' else w
            extra = 'should not be accepted' in l
            sep = [v for v in words if (ans(v) and not ref(v)) == extra and ans(v) != ref(v)]
            if w not in sep:
                bad.append('reported word %r is not a separating word of that polarity' % w)
            elif any(len(v) < len(w) for v in sep):
                bad.append('reported word %r is not of minimal length' % w)
    return bool(bad), {'printed': lines, 'problems': bad}


def _garbage(text, rp):
    return text + ('\nzz\n' if rp.get('garbage') else '')


def _replay_compare(rp):
    from gambatools.language_generator import compare_languages
    A1, A2 = set(rp['A1']), set(rp['A2'])
    fb = compare_languages(set(A1), set(A2))
    words = sorted(A1 | A2, key=len)
    lines = fb if fb else ['OK']
    bad, detail = _verdict(lines, words, lambda w: w in A1, lambda w: w in A2, A1 == A2)
    if len(fb) > 1 or (not fb and A1 != A2):
        bad = True
    return bad, detail


def _replay_complement(rp):
    import gambatools.notebook_dfa as ND
    from gambatools.dfa_algorithms import print_dfa
    R, A = rp['reference'], rp['answer']
    lines = _capture(ND.check_dfa_complement, _garbage(print_dfa(nat.mk_dfa(A)), rp), print_dfa(nat.mk_dfa(R)))
    crit = not rp.get('garbage') and sorted(map(tuple, A['delta'])) == sorted(map(tuple, R['delta'])) and set(A['F']) == set(R['Q']) - set(R['F'])
    return 'OK' in lines and not crit, {'printed': lines}


def _replay_product(rp):
    import gambatools.notebook_dfa as ND
    from gambatools.dfa_algorithms import print_dfa
    fn = getattr(ND, 'check_dfa_' + rp['op'])
    lines = _capture(fn, _garbage(print_dfa(nat.mk_dfa(rp['answer'])), rp), print_dfa(nat.mk_dfa(rp['D1'])), print_dfa(nat.mk_dfa(rp['D2'])), rp['length'])
    words = nat.words_upto(rp['D1']['Sigma'], rp['length'])
    comb = {'union': lambda a, b: a or b, 'intersection': lambda a, b: a and b, 'symmetric_difference': lambda a, b: a != b}[rp['op']]
    ans = lambda w: nat.ref_dfa_accepts(rp['answer'], w)
    ref = lambda w: comb(nat.ref_dfa_accepts(rp['D1'], w), nat.ref_dfa_accepts(rp['D2'], w))
    return _verdict(lines, words, ans, ref, not rp.get('garbage') and all(ans(w) == ref(w) for w in words))


def _replay_reverse(rp):
    import gambatools.notebook_dfa as ND
    from gambatools.dfa_algorithms import print_dfa
    from gambatools.nfa_algorithms import print_nfa
    lines = _capture(ND.check_dfa_reverse, print_dfa(nat.mk_dfa(rp['D'])), print_nfa(nat.mk_nfa(rp['answer'])), rp['length'])
    words = nat.words_upto(rp['D']['Sigma'], rp['length'])
    ans = lambda w: nat.ref_nfa_accepts(rp['answer'], w)
    ref = lambda w: nat.ref_dfa_accepts(rp['D'], w[::-1])
    return _verdict(lines, words, ans, ref, all(ans(w) == ref(w) for w in words))


def _replay_minimal(rp):
    import gambatools.notebook_dfa as ND
    from gambatools.dfa_algorithms import print_dfa
    from .C04 import ref_classes
    lines = _capture(ND.check_dfa_minimal, print_dfa(nat.mk_dfa(rp['D'])), print_dfa(nat.mk_dfa(rp['answer'])), rp['length'])
    words = nat.words_upto(rp['D']['Sigma'], rp['length'])
    ans = lambda w: nat.ref_dfa_accepts(rp['answer'], w)
    ref = lambda w: nat.ref_dfa_accepts(rp['D'], w)
    n_all, _ = ref_classes(rp['D'], False)
    n_reach, _ = ref_classes(rp['D'], True)
    m = len(rp['answer']['Q'])
    return _verdict(lines, words, ans, ref, n_reach <= m <= n_all and all(ans(w) == ref(w) for w in words))


def _replay_nfa2dfa(rp):
    import gambatools.notebook_nfa2dfa as NN
    from gambatools.nfa_algorithms import print_nfa
    lines = _capture(NN.check_nfa2dfa, print_nfa(nat.mk_nfa(rp['N'])), print_nfa(nat.mk_nfa(rp['answer'])))
    A = rp['answer']
    words = nat.words_upto(rp['N']['Sigma'], rp['length'])
    ans = lambda w: nat.ref_nfa_accepts(A, w)
    ref = lambda w: nat.ref_nfa_accepts(rp['N'], w)
    det = all((a != A['epsilon'] and len(ts) == 1) or (a == A['epsilon'] and not ts) for p, a, ts in A['delta'])
    init = set(x for x in A['q0'][1:-1].split(',') if x) == set(nat.ref_closure(rp['N'], [rp['N']['q0']]))
    crit = det and init and all(ans(w) == ref(w) for w in words)
    return 'OK' in lines and not crit, {'printed': lines, 'deterministic': det, 'initial ok': init}


def _replay_from_words(rp):
    import gambatools.notebook as NB
    from gambatools.dfa_algorithms import print_dfa
    A = rp['answer']
    lines = _capture(NB.check_dfa_language_from_words, _garbage(print_dfa(nat.mk_dfa(A)), rp), rp['word_list'], rp['length'], rp['max_states'])
    refw = set('' if w in ('ε', '_') else w for w in rp['word_list'].split())
    words = sorted(set(nat.words_upto(A['Sigma'], rp['length'])) | refw, key=len)
    ans = lambda w: len(w) <= rp['length'] and all(ch in A['Sigma'] for ch in w) and nat.ref_dfa_accepts(A, w)
    ref = lambda w: w in refw
    crit = not rp.get('garbage') and not (0 < rp['max_states'] < len(A['Q'])) and all(ans(w) == ref(w) for w in words)
    return _verdict(lines, words, ans, ref, crit)


def _replay_accepts_rejects(rp):
    import gambatools.notebook as NB
    from gambatools.dfa_algorithms import print_dfa
    A = rp['answer']
    lines = _capture(NB.check_dfa_accepts_rejects, print_dfa(nat.mk_dfa(A)), rp['accepted'], rp['rejected'])
    norm = lambda s: ['' if w in ('ε', '_') else w for w in s.split()]
    acc, rej = norm(rp['accepted']), norm(rp['rejected'])
    crit = all(nat.ref_dfa_accepts(A, w) for w in acc) and not any(nat.ref_dfa_accepts(A, w) for w in rej)
    bad = 'OK' in lines and not crit
    for l in lines:
        if l.startswith("Error: word '"):
            w = l.split("'")[1]
            w = '' if w == 'ε' else w
            if 'should not' in l:
                bad = bad or not (w in rej and nat.ref_dfa_accepts(A, w))
            else:
                bad = bad or not (w in acc and not nat.ref_dfa_accepts(A, w))
    return bad, {'printed': lines}


def _replay_dfa2regexp(rp):
    import gambatools.notebook as NB
    import gambatools.regexp as R
    from gambatools.dfa_algorithms import print_dfa
    r = nat.mk_regexp(rp['answer'])
    lines = _capture(NB.check_dfa2regexp, print_dfa(nat.mk_dfa(rp['D'])), R.print_regexp_simple(r), rp['length'])
    words = nat.words_upto(rp['D']['Sigma'], rp['length'])
    lang = nat.ref_regexp_lang(rp['answer'], rp['length'])
    ans = lambda w: w in lang
    ref = lambda w: nat.ref_dfa_accepts(rp['D'], w)
    return _verdict(lines, words, ans, ref, all(ans(w) == ref(w) for w in words))


def _replay_derivation(rp):
    import gambatools.notebook_cfg as NC
    x = rp['x']
    cfg = ''.join('%s -> %s\n' % (X, r) for X, r in x['rules'])
    lines = _capture(NC.check_cfg_derivation, cfg, x['derivation'], x['word'], x['type'])
    forms = [f.strip() for f in x['derivation'].split('=>')]
    cands = [tuple(r) for r in x['rules']]
    steps = nat.derivation_justifications(cands, forms, 'S', x['word'], x['type'])
    mentioned = set(ch for X, r in cands for ch in X + r)
    valid = steps is not None and all(steps) and all(ch in mentioned for f in forms for ch in f)
    return 'OK' in lines and not valid, {'printed': lines, 'valid derivation': valid}


def _replay_cyk_checker(rp):
    import gambatools.notebook_cfg as NC
    x = rp['x']
    cfg = ''.join('%s -> %s\n' % (X, r) for X, r in x['rules'])
    w = x['word']
    n = len(w)
    rows = []
    for row in range(n):
        span = n - 1 - row
        rows.append(' '.join('{' + ','.join(x['table']['%d,%d' % (j, j + span)]) + '}' for j in range(n - span)))
    lines = _capture(NC.check_cyk_matrix, cfg, w, '\n'.join(rows) + '\n')
    tab = nat.ref_cfg_table({'V': ['S', 'A', 'B'], 'Sigma': ['a', 'b'], 'S': 'S', 'R': [[X, list(r)] for X, r in x['rules']]}, w)
    right = all(set(x['table']['%d,%d' % (i, j)]) == set(V_ for V_ in ('S', 'A', 'B') if (V_, i, j + 1) in tab) for i in range(n) for j in range(i, n))
    return 'OK' in lines and not right, {'printed': lines, 'table correct': right}


def _replay_chomsky_checker(rp):
    import gambatools.notebook_chomsky as NC
    from gambatools.cfg_algorithms import cfg_print_simple
    x = rp['x']
    G = nat.mk_cfg(x)
    ref = cfg_print_simple(G)
    G1 = NC.cfg_apply_chomsky(G, x['phase'], 'Z')
    answer = cfg_print_simple(G1) + '\n' + ''.join('%s -> %s\n' % (X, r or 'ε') for X, r in x['extras'])
    lines = _capture(NC.cfg_check_chomsky, ref, answer, x['phase'], 'Z', rp['length'])
    j1 = nat.cfg_json_of(G1)
    R = [[X_, list(r_)] for X_, r_ in j1['R']] + [[X, list(r)] for X, r in x['extras']]
    V = sorted(set(j1['V']) | set(X for X, _ in R))
    aj = {'V': V, 'Sigma': ['a', 'b'], 'S': 'Z', 'R': R}
    words = nat.words_upto(['a', 'b'], rp['length'])
    same = all(nat.ref_cfg_accepts(x, w) == nat.ref_cfg_accepts(aj, w) for w in words)
    ph = x['phase']
    isv = lambda s_: not (len(s_) == 1 and (s_.islower() or s_.isdigit()))
    post = True
    if ph >= 2:
        post = post and not any(len(r_) == 0 and X_ != 'Z' for X_, r_ in R)
    if ph >= 3:
        post = post and not any(len(r_) == 1 and isv(r_[0]) for X_, r_ in R)
    if ph >= 4:
        post = post and not any(len(r_) > 2 for X_, r_ in R)
    if ph >= 5:
        post = post and all((len(r_) == 1 and not isv(r_[0])) or (len(r_) == 2 and all(isv(s_) for s_ in r_)) or (len(r_) == 0 and X_ == 'Z') for X_, r_ in R)
    return 'OK' in lines and not (same and post), {'printed': lines, 'same language': same, 'postconditions': post, 'answer': answer}


def _nat_lang(kind, js, length):
    """native text + independent membership predicate of a decoded language object"""
    if kind == 'dfa':
        from gambatools.dfa_algorithms import print_dfa
        return print_dfa(nat.mk_dfa(js)), (lambda w: all(ch in js['Sigma'] for ch in w) and nat.ref_dfa_accepts(js, w)), len(js['Q'])
    if kind == 'nfa':
        from gambatools.nfa_algorithms import print_nfa
        return print_nfa(nat.mk_nfa(js)), (lambda w: all(ch in js['Sigma'] for ch in w) and nat.ref_nfa_accepts(js, w)), len(js['Q'])
    if kind == 'regexp':
        import gambatools.regexp as R
        lang = nat.ref_regexp_lang(js, length)
        return R.print_regexp_simple(nat.mk_regexp(js)), (lambda w: w in lang), 0
    if kind == 'cfg':
        text = ''.join('%s -> %s\n' % (X, ''.join(rhs) or js.get('eps', 'ε')) for X, rhs in js['R'])
        return text, (lambda w: nat.ref_cfg_accepts(js, w)), 0
    raise ValueError(kind)


def _replay_lang(rp):
    import gambatools.notebook as NB
    length = rp['length']
    atext, ans, nstates = _nat_lang(rp['ans_kind'], rp['answer'], length)
    atext = _garbage(atext, rp)
    words = nat.words_upto(rp['syms'], length)
    inb = lambda w: len(w) <= length and all(ch in rp['syms'] for ch in w)
    if rp['front'] == 'from_file':
        rtext, ref, _ = _nat_lang(rp['ref_kind'], rp['reference'], length)
        fname = 'ref.' + rp['ref_kind']
        saved = NB.read_utf8_text
        NB.read_utf8_text = lambda filename: rtext
        try:
            if rp.get('first_length') is not None:
                _capture(getattr(NB, 'check_%s_language_from_file' % rp['ans_kind']), atext, fname, rp['first_length'])
            lines = _capture(getattr(NB, 'check_%s_language_from_file' % rp['ans_kind']), atext, fname, length)
        finally:
            NB.read_utf8_text = saved
        too_many = False
    else:
        refw = set('' if w in ('ε', '_') else w for w in rp['reference'].split())
        ref = lambda w: w in refw
        words = sorted(set(words) | refw, key=len)
        fn = getattr(NB, 'check_%s_language_from_words' % rp['ans_kind'])
        if rp['ans_kind'] in ('dfa', 'nfa'):
            lines = _capture(fn, atext, rp['reference'], length, rp['max_states'])
        else:
            lines = _capture(fn, atext, rp['reference'], length)
        too_many = rp['ans_kind'] in ('dfa', 'nfa') and 0 < rp['max_states'] < nstates
    a = lambda w: inb(w) and ans(w)
    crit = not rp.get('garbage') and not too_many and all(a(w) == ref(w) for w in words)
    return _verdict(lines, words, a, ref, crit)


def _replay_cfg_lists(rp):
    import gambatools.notebook as NB
    import gambatools.notebook_experimental as NX
    text, ans, _ = _nat_lang('cfg', rp['answer'], 0)
    if rp['front'] == 'accepts_rejects':
        lines = _capture(NB.check_cfg_accepts_rejects, text, rp['accepted'], rp['rejected'])
    elif rp['front'] == 'accepts':
        lines = _capture(NX.check_cfg_accepts, text, rp['accepted'])
    else:
        lines = _capture(NX.check_cfg_rejects, text, rp['rejected'])
    norm = lambda s: ['' if w in ('ε', '_') else w for w in s.split()]
    acc, rej = norm(rp['accepted']), norm(rp['rejected'])
    crit = all(ans(w) for w in acc) and not any(ans(w) for w in rej)
    bad = 'OK' in lines and not crit
    for l in lines:
        if l.startswith("Error: word '"):
            w = l.split("'")[1]
            w = '' if w == 'ε' else w
            if 'should not' in l:
                bad = bad or not (w in rej and ans(w))
            else:
                bad = bad or not (w in acc and not ans(w))
    return bad, {'printed': lines, 'criterion_holds': crit}


def _replay_automata_checker(rp):
    import gambatools.automata_checker as AC
    A = rp['answer']
    kind = rp['ans_kind']
    if kind == 'dfa':
        trans = [(p, a, t) for p, a, t in A['delta']]
        fn, accepts = AC.check_dfa_for_given_language, nat.ref_dfa_accepts
    else:
        trans = [(p, a, t) for p, a, ts in A['delta'] for t in ts if a != A.get('epsilon', '')]
        fn, accepts = AC.check_nfa_for_given_language, nat.ref_nfa_accepts
    res = fn(set(A['Q']), trans, {A['q0']}, set(A['F']), rp['language'], rp['length'])
    expected = set('' if w == 'ε' else w for w in rp['language'].split())
    words = set(nat.words_upto(A['Sigma'], rp['length'])) | expected
    inb = lambda w: len(w) <= rp['length'] and all(ch in A['Sigma'] for ch in w)
    acc = lambda w: inb(w) and accepts(A, w)
    agree = all(acc(w) == (w in expected) for w in words)
    bad = bool(res.get('correct')) and not agree
    fbk = res.get('feedback', '')
    if fbk.startswith("word '"):
        w = fbk.split("'")[1]
        w = '' if w == 'ε' else w
        if 'should not be accepted' in fbk:
            bad = bad or not (acc(w) and w not in expected)
        else:
            bad = bad or not (not acc(w) and w in expected)
    return bad, {'result': res, 'languages agree': agree}


REPLAY = {'automata_checker': _replay_automata_checker, 'lang': _replay_lang, 'cfg_lists': _replay_cfg_lists, 'chomsky_checker': _replay_chomsky_checker, 'cyk_checker': _replay_cyk_checker, 'derivation': _replay_derivation, 'compare': _replay_compare, 'complement': _replay_complement, 'product': _replay_product, 'reverse': _replay_reverse,
          'minimal': _replay_minimal, 'nfa2dfa': _replay_nfa2dfa, 'from_words': _replay_from_words,
          'accepts_rejects': _replay_accepts_rejects, 'dfa2regexp': _replay_dfa2regexp}
