"""C03 -- subset construction yields an equivalent total DFA."""
import itertools

from . import common as c
from . import nat
from .common import E, L, TRUE, FALSE

META = {
    'bounds': {'quick': 'all NFAs with n<=2 states over |Sigma|<=2 and n=3 over |Sigma|=1 (every triple present or not, epsilon '
                        "symbol '' or '_', total dict or parser-style sparse defaultdict), empty alphabet; language equality for "
                        'ALL word lengths via the exact bound 2^n + |Q\'| - 2 and, independently, via the three inductive conditions; '
                        'a 10-state family with closures of more than 8 states; a determinise / modify / determinise history',
               'thorough': 'n=3 over |Sigma|=2, n=4 over |Sigma|=1'},
    'outside': 'NFAs with more states than the bound; state names other than q0..q9',
    'oracle': 'reachability-matrix NFA semantics (as C01) stepped along one position-wise symbolic word of the exact-bound length; '
              'subset semantics of the printed state names',
    'assumptions': ['NFA satisfies NFA._check_validity', 'a state label {x,y,..} of the result stands for that set of NFA states '
                    '(the convention print_state_set / the nfa2dfa exercise checker rely on)'],
}


def parse_name(s):
    body = s[1:-1]
    return frozenset(body.split(',')) if body else frozenset()


def result_view(Dr, syms):
    from .oracles import DfaView
    return DfaView(Dr, None, syms)


def check_result(job, N, view, Dr, names, syms, tag, rp):
    """obligations for one call of nfa_to_dfa (view = NfaView snapshot of the argument before the call)"""
    from .oracles import set_eq_bad
    d = E.dag
    rv = result_view(Dr, syms)
    # alphabet unchanged
    job.oblige(tag + 'alphabet of the result equals the alphabet of the NFA', set_eq_bad(Dr.Sigma, {a: view.spres[a] for a in syms}), replay=rp)
    # initial state stands for eps*(q0)
    C = view.closure()
    bad_init = FALSE
    for nm, g in rv.q0.items():
        X = parse_name(nm)
        eq = d.all_(d.iff(TRUE if q in X else FALSE, d.any_(d.and_(view.q0.get(p, FALSE), C[p, q]) for p in names)) for q in names)
        if not X <= set(names):
            eq = FALSE
        bad_init = d.or_(bad_init, d.and_(g, eq ^ 1))
    job.oblige(tag + 'initial state stands for the epsilon closure of q0', bad_init, replay=rp)
    # every state of the result is reachable from its initial state
    reach = rv.reachable()
    job.oblige(tag + 'every state of the result is reachable', d.any_(d.and_(rv.qpres[s], reach[s] ^ 1) for s in rv.names), replay=rp)
    # totality / closedness beyond the constructor asserts: every present state has a transition on every symbol
    job.oblige(tag + 'result is total', d.any_(d.all_([rv.qpres[s], view.spres[a], d.any_(rv.dl.get((s, a), {}).values()) ^ 1])
                                               for s in rv.names for a in syms), replay=rp)
    # language equality for all words: exact bound 2^n + |Q'| - 2, one position-wise symbolic word
    B = 2 ** len(names) + len(rv.names) - 2
    W = c.sym_positions(syms, B, tag.strip() or 'w') if syms else []
    vn = view.init()
    vd = rv.init()
    for l in range(B + 1):
        job.oblige(tag + 'L(result) and L(N) agree on every word of length %d' % l, d.iff(view.acc(vn), rv.acc(vd)) ^ 1,
                   replay=rp)
        if l < B and syms:
            vn = view.step(vn, W[l])
            vd = rv.step(vd, W[l])
        elif not syms:
            break
    return rv


def nfa_bits_json(view, partial):
    return lambda mv: view.to_json(mv, defaultdict=True)


def job_subset(job, n, k, eps, partial):
    from gambatools.nfa_algorithms import nfa_to_dfa
    from .oracles import NfaView
    job.functions('nfa_algorithms', ['nfa_to_dfa', 'epsilon_closure'])
    job.functions('dfa', ['print_state_set', 'DFA'])
    N, names, syms = c.sym_nfa(n, k, eps=eps, partial=partial)
    view = NfaView(N, names, syms)
    job.inputs['N'] = N
    job.decoders['N'] = view.to_json
    E.while_bound = 2 ** n + 2
    Dr = nfa_to_dfa(N)
    job.lifted()
    nn = c.native('nfa_algorithms')
    job.differential(30, lambda mv: nat.dfa_json_of(c.conc(Dr, mv)),
                     lambda mv: nat.dfa_json_of(nn.nfa_to_dfa(nat.mk_nfa(view.to_json(mv), c.native('nfa')))), 'nfa_to_dfa', replay=('subset', {'N': view.to_json}))
    rp = ('subset', {'N': view.to_json})
    check_result(job, N, view, Dr, names, syms, '', rp)
    # argument unchanged
    from .oracles import NfaView as NV
    after = NV(N, names, syms)
    d = E.dag
    changed = d.any_(d.iff(view.T.get(key, FALSE), after.T.get(key, FALSE)) ^ 1 for key in set(view.T) | set(after.T))
    changed = d.or_(changed, d.any_(d.iff(view.F[q], after.F[q]) ^ 1 for q in names))
    job.oblige('argument NFA unchanged (transitions, accepting states)', changed, replay=rp)
    job.failures_as_obligations(replay=rp)
    if n >= 2:
        job.must_reach('epsilon cycle', d.and_(view.eps_t(names[0], names[1]), view.eps_t(names[1], names[0])))
    return job.solve()


def job_history(job, n, k, eps):
    """determinise, modify the same NFA object in place, determinise again: the second result must be
    correct for the NFA as it is then"""
    from gambatools.nfa_algorithms import nfa_to_dfa
    from .oracles import NfaView
    job.functions('nfa_algorithms', ['nfa_to_dfa', 'epsilon_closure'])
    N, names, syms = c.sym_nfa(n, k, eps=eps, partial=False)
    view0 = NfaView(N, names, syms)
    job.inputs['N'] = N
    job.decoders['N'] = view0.to_json
    E.while_bound = 2 ** n + 2
    D1 = nfa_to_dfa(N)
    p = c.choice(names, 'mut_p')
    lab = c.choice(syms + [eps], 'mut_a')
    q = c.choice(names, 'mut_q')
    L.CALLM(L.GETITEM(N.delta, (p, lab)), 'add', q)
    view1 = NfaView(N, names, syms)
    D2 = nfa_to_dfa(N)
    job.lifted()
    mut = {'p': lambda mv: c.conc(p, mv), 'a': lambda mv: c.conc(lab, mv), 'q': lambda mv: c.conc(q, mv)}
    job.decoders['mutation'] = lambda mv: {k_: v(mv) for k_, v in mut.items()}
    job.inputs['mutation'] = None
    rp = ('history', {'N': view0.to_json, **mut})
    check_result(job, N, view0, D1, names, syms, 'first call: ', rp)
    check_result(job, N, view1, D2, names, syms, 'after in-place modification: ', rp)
    job.failures_as_obligations(replay=rp)
    return job.solve()


def job_large_subsets(job, n, nsym):
    """mostly concrete NFA with n >= 10 states whose reachable subsets have more than 8 elements; the
    presence of some transitions and the accepting set stay symbolic"""
    from gambatools.nfa import NFA
    from gambatools.nfa_algorithms import nfa_to_dfa
    from .oracles import NfaView
    job.functions('nfa_algorithms', ['nfa_to_dfa'])
    job.functions('dfa', ['print_state_set'])
    names = ['q%d' % i for i in range(n)]
    syms = ['a']
    d = E.dag
    delta = L.GDict(default_factory=L.GSet)
    for i, qn in enumerate(names):
        s = L.GSet()
        if i == 0:
            for j in range(1, n):
                s.m[names[j]] = TRUE if j < n - nsym else E.fresh('e_%d' % j)
        delta.m[(qn, '')] = [TRUE, s]
        t = L.GSet()
        if i > 0:
            t.m[names[i]] = E.fresh('loop_%d' % i) if i >= n - nsym else TRUE
        delta.m[(qn, 'a')] = [TRUE, t]
    F = L.GSet()
    for qn in names[-nsym:]:
        F.m[qn] = E.fresh('f_%s' % qn)
    N = NFA(L.GSet(names), L.GSet(syms), delta, 'q0', F, '')
    view = NfaView(N, names, syms)
    job.inputs['N'] = N
    job.decoders['N'] = view.to_json
    E.while_bound = n + 2 ** nsym + 6
    Dr = nfa_to_dfa(N)
    job.lifted()
    rp = ('subset', {'N': view.to_json})
    rv = result_view(Dr, syms)
    # inductive conditions (exact bound would be 2^n): initial, step, acceptance on the occurring names
    C = view.closure()
    bad = FALSE
    for nm, g in rv.q0.items():
        X = parse_name(nm) if nm.startswith('{') and '...' not in nm else None
        ok = FALSE if X is None else d.all_(d.iff(TRUE if q in X else FALSE, C['q0', q]) for q in names)
        bad = d.or_(bad, d.and_(g, ok ^ 1))
    job.oblige('initial state stands for the epsilon closure of q0', bad, replay=rp)
    step_bad = FALSE
    acc_bad = FALSE
    for s in rv.names:
        X = parse_name(s) if s.startswith('{') and '...' not in s else None
        if X is None or not X <= set(names):
            step_bad = d.or_(step_bad, rv.qpres[s])
            continue
        accX = d.any_(view.F[q] for q in X)
        acc_bad = d.or_(acc_bad, d.and_(rv.qpres[s], d.iff(rv.F[s], accX) ^ 1))
        for a in syms:
            succ = view.step({q: (TRUE if q in X else FALSE) for q in names}, {a: TRUE})
            for t, g in rv.dl.get((s, a), {}).items():
                Y = parse_name(t) if t.startswith('{') and '...' not in t else None
                ok = FALSE if Y is None else d.all_(d.iff(TRUE if q in Y else FALSE, succ[q]) for q in names)
                step_bad = d.or_(step_bad, d.all_([rv.qpres[s], g, ok ^ 1]))
    job.oblige('every transition of the result goes to the state that stands for the closed successor set', step_bad, replay=rp)
    job.oblige('a result state is accepting iff its set meets F', acc_bad, replay=rp)
    job.failures_as_obligations(replay=rp)
    return job.solve()


def jobs(tier):
    J = []

    def add(name, fn, timeout=None, **params):
        J.append({'name': name, 'fn': fn, 'params': params, **({'timeout': timeout} if timeout else {})})
    if tier == 'quick':
        add('subset_n2_k2', job_subset, n=2, k=2, eps='', partial=False)
        add('subset_n2_k2_sparse', job_subset, n=2, k=2, eps='_', partial=True)
        add('subset_n3_k1', job_subset, n=3, k=1, eps='', partial=False)
        add('subset_n3_k1_sparse', job_subset, n=3, k=1, eps='_', partial=True)
        add('subset_n2_k0', job_subset, n=2, k=0, eps='', partial=False)
        add('subset_n1_k2', job_subset, n=1, k=2, eps='', partial=True)
        add('history_n2_k1', job_history, n=2, k=1, eps='')
        add('large_subsets_n10', job_large_subsets, n=10, nsym=2)
    else:
        add('subset_n3_k2', job_subset, n=3, k=2, eps='', partial=False, timeout=3000)
        add('subset_n3_k2_sparse', job_subset, n=3, k=2, eps='_', partial=True, timeout=3000)
        add('subset_n4_k1', job_subset, n=4, k=1, eps='', partial=False, timeout=3000)
        add('history_n3_k1', job_history, n=3, k=1, eps='_', timeout=3000)
        add('large_subsets_n10_s3', job_large_subsets, n=10, nsym=3, timeout=3000)
        add('large_subsets_n12', job_large_subsets, n=12, nsym=4, timeout=3000)
    return J


# ------------------------------------------------------------------ native replay
def ref_check_subset(js, Dn):
    """independent check of a concrete determinisation result; -> list of problems"""
    problems = []
    Q, Sigma = set(Dn.Q), set(Dn.Sigma)
    if Sigma != set(js['Sigma']):
        problems.append('alphabet differs')
    for q in Q:
        for a in Sigma:
            if (q, a) not in Dn.delta or Dn.delta[q, a] not in Q:
                problems.append('not total/closed at %s,%s' % (q, a))
    if parse_name(Dn.q0) != frozenset(nat.ref_closure(js, {js['q0']})):
        problems.append('initial state %s does not stand for the closure %s' % (Dn.q0, sorted(nat.ref_closure(js, {js['q0']}))))
    # reachability and language by joint exploration with an independent subset construction
    T = {(q, a): set(ts) for q, a, ts in js['delta']}
    start = (Dn.q0, frozenset(nat.ref_closure(js, {js['q0']})))
    seen = {start}
    todo = [start]
    while todo and not problems:
        s, X = todo.pop()
        if (s in Dn.F) != bool(X & set(js['F'])):
            problems.append('acceptance differs at %s / %s' % (s, sorted(X)))
        for a in sorted(Sigma):
            if (s, a) not in Dn.delta:
                continue
            Y = set()
            for x in X:
                Y |= T.get((x, a), set())
            nxt = (Dn.delta[s, a], frozenset(nat.ref_closure(js, Y)))
            if nxt not in seen:
                seen.add(nxt)
                todo.append(nxt)
    unreachable = Q - {s for s, _ in seen}
    if unreachable:
        problems.append('unreachable states %s' % sorted(unreachable))
    return problems


def _replay_subset(rp):
    from gambatools.nfa_algorithms import nfa_to_dfa
    Nn = nat.mk_nfa(rp['N'])
    before = nat.nfa_json_of(Nn)
    try:
        Dn = nfa_to_dfa(Nn)
    except Exception as e:
        return True, {'library raised': repr(e)}
    problems = ref_check_subset(rp['N'], Dn)
    after = nat.nfa_json_of(Nn)
    if {k: v for k, v in before.items() if k != 'delta'} != {k: v for k, v in after.items() if k != 'delta'} or \
            [x for x in before['delta'] if x[2]] != [x for x in after['delta'] if x[2]]:
        problems.append('argument modified')
    return bool(problems), {'problems': problems[:4], 'result': str(Dn)[:300]}


def _replay_history(rp):
    from gambatools.nfa_algorithms import nfa_to_dfa
    Nn = nat.mk_nfa(rp['N'])
    problems = []
    try:
        D1 = nfa_to_dfa(Nn)
        problems += ['first call: ' + p for p in ref_check_subset(rp['N'], D1)]
        Nn.delta[rp['p'], rp['a']].add(rp['q'])
        js1 = nat.nfa_json_of(Nn)
        D2 = nfa_to_dfa(Nn)
        problems += ['after modification: ' + p for p in ref_check_subset(js1, D2)]
    except Exception as e:
        return True, {'library raised': repr(e)}
    return bool(problems), {'problems': problems[:4]}


REPLAY = {'subset': _replay_subset, 'history': _replay_history}
