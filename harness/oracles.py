"""Reference semantics written directly over the input bits (AIG literals). Textbook definitions,
sharing no code with the library: reachability matrices for NFAs, one-hot successor vectors for
DFAs, table filling for Myhill-Nerode, derivability tables for grammars, ...
"""
import itertools

from .common import E, L, TRUE, FALSE, alt_map


def D():
    return E.dag


def field(obj, name):
    """attribute of an object or of a guarded union of objects (merged field view)"""
    if isinstance(obj, L.U):
        return E.mk([(g, getattr(v, name)) for g, v in obj.alts])
    return getattr(obj, name)


def dict_items(x):
    """{key: (presence, value)} of a GDict or of a guarded union of GDicts"""
    d = D()
    if isinstance(x, L.GDict):
        return {k: (p, v) for k, (p, v) in x.m.items()}
    if isinstance(x, L.U):
        acc = {}
        for g, v in x.alts:
            for k, (p, val) in dict_items(v).items():
                acc.setdefault(k, []).append((d.and_(g, p), val))
        return {k: (d.any_(g for g, _ in lst), E.mk(lst)) for k, lst in acc.items()}
    if isinstance(x, dict):
        return {k: (TRUE, v) for k, v in x.items()}
    raise TypeError('not a dict value: %r' % (type(x),))


# ---------------------------------------------------------------------------- DFA views
class DfaView:
    """reads a (symbolic) DFA object into plain literal tables; must be built BEFORE lifted code may
    mutate the object (it snapshots guards, which are immutable)"""

    def __init__(self, Dobj, names=None, syms=None, prune=None):
        d = D()
        Qs = L._setview(field(Dobj, 'Q'))
        if prune is None:
            prune = names is None          # views of computed results: drop candidates that can never be present
        self.names = names or [e for e in Qs.m if not prune or E.sat_guard_global(Qs.m[e])]
        self.qpres = {q: Qs.m.get(q, FALSE) for q in self.names}
        Ss = L._setview(field(Dobj, 'Sigma'))
        self.syms = syms if syms is not None else [e for e in Ss.m]
        self.spres = {a: Ss.m.get(a, FALSE) for a in self.syms}
        self.q0 = alt_map(field(Dobj, 'q0'))
        Fs = L._setview(field(Dobj, 'F'))
        self.F = {q: Fs.m.get(q, FALSE) for q in self.names}
        self.extraF = [e for e in Fs.m if e not in self.qpres]
        self.dl = {}
        self.keypres = {}
        for (q, a), (p, v) in dict_items(field(Dobj, 'delta')).items():
            self.keypres[(q, a)] = p
            if prune and q not in self.qpres:
                continue
            self.dl[(q, a)] = {t: d.and_(p, g) for t, g in alt_map(v).items() if not prune or E.sat_guard_global(d.and_(p, g))}

    def step(self, vec, a_guards):
        """vec: {state: lit}; a_guards: {symbol: lit} (one-hot) -> successor vector"""
        d = D()
        out = {}
        for q1 in self.names:
            terms = []
            for q in self.names:
                if vec.get(q, FALSE) == FALSE:
                    continue
                for a, ga in a_guards.items():
                    t = self.dl.get((q, a), {}).get(q1, FALSE)
                    if t != FALSE and ga != FALSE:
                        terms.append(d.all_([vec[q], ga, t]))
            out[q1] = d.any_(terms)
        return out

    def init(self):
        return {q: self.q0.get(q, FALSE) for q in self.names}

    def run(self, word):
        vec = self.init()
        for a in word:
            vec = self.step(vec, {a: TRUE})
        return vec

    def accepts(self, word):
        return self.acc(self.run(word))

    def acc(self, vec):
        d = D()
        return d.any_(d.and_(vec[q], self.F[q]) for q in self.names)

    def reachable(self):
        """{state: lit} reachable from q0 (within |Q| steps)"""
        d = D()
        vec = self.init()
        for _ in range(len(self.names)):
            nxt = dict(vec)
            for a in self.syms:
                st = self.step(vec, {a: self.spres[a]})
                for q in self.names:
                    nxt[q] = d.or_(nxt[q], st[q])
            if nxt == vec:
                break
            vec = nxt
        return vec

    def distinguishable(self):
        """Myhill-Nerode table filling: {(p,q): lit 'p and q are distinguishable'} (all states)"""
        d = D()
        ns = self.names
        dist = {}
        for p, q in itertools.combinations(ns, 2):
            dist[(p, q)] = d.iff(self.F[p], self.F[q]) ^ 1

        def get(p, q):
            if p == q:
                return FALSE
            return dist[(p, q)] if (p, q) in dist else dist[(q, p)]

        for _ in range(max(1, len(ns) * (len(ns) - 1) // 2)):
            new = {}
            for p, q in dist:
                terms = [dist[(p, q)]]
                for a in self.syms:
                    for p1, g1 in self.dl.get((p, a), {}).items():
                        for q1, g2 in self.dl.get((q, a), {}).items():
                            if p1 != q1 and p1 in self.qpres and q1 in self.qpres:
                                terms.append(d.all_([self.spres[a], g1, g2, get(p1, q1)]))
                new[(p, q)] = d.any_(terms)
            if new == dist:
                break
            dist = new
        self._dist = dist
        return get


# ---------------------------------------------------------------------------- NFA views
class NfaView:
    """transition bits of a (symbolic) NFA object: T[(q, a, q1)], a in syms + [eps]"""

    def __init__(self, N, names=None, syms=None):
        d = D()
        Qs = L._setview(field(N, 'Q'))
        self.names = names or [e for e in Qs.m]
        self.qpres = {q: Qs.m.get(q, FALSE) for q in self.names}
        Ss = L._setview(field(N, 'Sigma'))
        self.syms = syms if syms is not None else [e for e in Ss.m]
        self.spres = {a: Ss.m.get(a, FALSE) for a in self.syms}
        self.q0 = alt_map(field(N, 'q0'))
        Fs = L._setview(field(N, 'F'))
        self.F = {q: Fs.m.get(q, FALSE) for q in self.names}
        self.eps = alt_map(field(N, 'epsilon'))       # {symbol: guard}
        self.T = {}
        self.keys = {}
        for (q, a), (p, v) in dict_items(field(N, 'delta')).items():
            self.keys[(q, a)] = p
            sv = L._setview(v)
            if isinstance(sv, (L.GSet, L.FSet)):
                for q1, g in sv.m.items():
                    self.T[(q, a, q1)] = d.or_(self.T.get((q, a, q1), FALSE), d.and_(p, g))
            else:
                raise TypeError('NFA delta value %r' % (v,))
        self._C = None

    def t(self, q, a, q1):
        return self.T.get((q, a, q1), FALSE)

    def eps_t(self, q, q1):
        d = D()
        return d.any_(d.and_(g, self.t(q, e, q1)) for e, g in self.eps.items())

    def sym_t(self, q, a, q1):
        """a-transition where a is an input symbol (and not the epsilon symbol)"""
        d = D()
        not_eps = d.any_(g for e, g in self.eps.items() if e == a) ^ 1
        return d.and_(not_eps, self.t(q, a, q1))

    def closure(self):
        """C[(p, q)]: q reachable from p by epsilon moves alone (reflexive-transitive)"""
        if self._C is not None:
            return self._C
        d = D()
        ns = self.names
        C = {(p, q): d.or_(TRUE if p == q else FALSE, self.eps_t(p, q)) for p in ns for q in ns}
        for _ in range(max(1, (len(ns) - 1).bit_length())):
            C = {(p, q): d.any_(d.and_(C[p, r], C[r, q]) for r in ns) for p in ns for q in ns}
        self._C = C
        return C

    def close(self, vec):
        d = D()
        C = self.closure()
        return {q: d.any_(d.and_(vec[p], C[p, q]) for p in self.names if vec.get(p, FALSE) != FALSE) for q in self.names}

    def init(self):
        return self.close({q: self.q0.get(q, FALSE) for q in self.names})

    def step(self, vec, a_guards):
        """closed vector -> closed successor vector for the symbol chosen by the one-hot a_guards"""
        d = D()
        raw = {}
        for q1 in self.names:
            raw[q1] = d.any_(d.all_([vec[q], ga, self.sym_t(q, a, q1)]) for q in self.names if vec[q] != FALSE
                             for a, ga in a_guards.items() if ga != FALSE)
        return self.close(raw)

    def acc(self, vec):
        d = D()
        return d.any_(d.and_(vec[q], self.F[q]) for q in self.names)

    def accepts(self, word):
        vec = self.init()
        for a in word:
            vec = self.step(vec, {a: TRUE})
        return self.acc(vec)


def set_eq_bad(gset, ref):
    """literal: the engine set value differs from the reference presence map {elem: lit}"""
    d = D()
    sv = L._setview(gset)
    if not isinstance(sv, (L.GSet, L.FSet)):
        if isinstance(gset, (set, frozenset)):
            m = {e: TRUE for e in gset}
        else:
            raise TypeError('not a set value: %r' % (gset,))
    else:
        m = sv.m
    keys = set(m) | set(ref)
    return d.any_(d.iff(m.get(e, FALSE), ref.get(e, FALSE)) ^ 1 for e in keys)


def _dfa_to_json(self, mv):
    names = [q for q in self.names if mv(self.qpres[q])]
    delta = []
    for (q, a), tg in self.dl.items():
        for t, g in tg.items():
            if mv(g):
                delta.append([q, a, t])
    q0 = [q for q, g in self.q0.items() if mv(g)]
    return {'Q': names, 'Sigma': [a for a in self.syms if mv(self.spres[a])], 'delta': sorted(delta),
            'q0': q0[0] if q0 else None, 'F': [q for q in self.names if mv(self.F[q])]}


def _nfa_to_json(self, mv, defaultdict=True):
    names = [q for q in self.names if mv(self.qpres[q])]
    delta = []
    for (q, a), p in self.keys.items():
        if mv(p):
            delta.append([q, a, sorted(q1 for q1 in self.names if mv(self.T.get((q, a, q1), FALSE)))])
    q0 = [q for q, g in self.q0.items() if mv(g)]
    eps = [e for e, g in self.eps.items() if mv(g)]
    return {'Q': names, 'Sigma': [a for a in self.syms if mv(self.spres[a])], 'delta': sorted(delta),
            'q0': q0[0] if q0 else None, 'F': [q for q in self.names if mv(self.F[q])], 'epsilon': eps[0] if eps else None,
            'defaultdict': defaultdict}


DfaView.to_json = _dfa_to_json
NfaView.to_json = _nfa_to_json
