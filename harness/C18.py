"""C18 -- NFA union, concatenation and star on arbitrary operands (state names, epsilon symbols, call history)."""
from . import common as c
from . import nat
from .common import E, L, TRUE, FALSE

META = {
    'bounds': {'quick': 'operands with 2 + 1 and 1 + 2 states (star: 2 states), |Sigma| = 1..2, every transition triple present or '
                        "not, epsilon symbols '' / '_' / 'ε' independently per operand, state-name families that include the names "
                        'the identifier generator produces (q0, q1, ...); the shared default generator in any state index 0..4 '
                        '(= after any number of earlier calls); language equality for ALL word lengths (exact bound)',
               'thorough': 'operands 2 + 2 and 3 + 1, star of 3 states'},
    'outside': 'larger operands; an operand whose alphabet contains the other operand\'s epsilon symbol',
    'oracle': 'reachability-matrix semantics of the operands; union = disjunction, concatenation = split simulation, star = '
              'boundary simulation, all along one position-wise symbolic word of the exact-bound length',
    'assumptions': ['operands valid with disjoint state sets', 'the alphabets of the operands do not contain either epsilon symbol'],
}


def set_generator_history(K):
    """the default IdentifierGenerator is created once at import; 'after any number of earlier calls'
    = its index is any value in 0..K"""
    import gambatools.nfa_algorithms as NA
    gens = []
    for f in (NA.nfa_union, NA.nfa_repetition):
        for dflt in (f.__defaults__ or ()):
            if type(dflt).__name__ == 'IdentifierGenerator' and all(dflt is not g for g in gens):
                gens.append(dflt)
    idx = []
    for i, g in enumerate(gens):
        v = c.choice(list(range(K + 1)), 'hist%d' % i)
        g.index = v
        idx.append(v)
    return idx


def nfa_changed(before, after):
    d = E.dag
    bad = d.any_(d.iff(before.T.get(key, FALSE), after.T.get(key, FALSE)) ^ 1 for key in set(before.T) | set(after.T))
    bad = d.or_(bad, d.any_(d.iff(before.F[q], after.F.get(q, FALSE)) ^ 1 for q in before.names))
    bad = d.or_(bad, d.any_(d.iff(before.qpres[q], after.qpres.get(q, FALSE)) ^ 1 for q in before.names))
    bad = d.or_(bad, d.any_(after.qpres[q] for q in after.names if q not in before.qpres))
    return bad


def job_binary(job, op, n1, n2, k, eps1, eps2, names1, names2, K=4, explicit_generator=False):
    import gambatools.nfa_algorithms as NA
    from gambatools.identifier_generator import IdentifierGenerator
    from .oracles import NfaView, field
    job.functions('nfa_algorithms', ['nfa_union', 'nfa_concatenation', 'nfa_repetition'])
    job.functions('identifier_generator', ['IdentifierGenerator'])
    d = E.dag
    hist = set_generator_history(K)
    N1, names1, syms = c.sym_nfa(n1, k, eps=eps1, tag='A', names=names1, partial=True)
    N2, names2, _ = c.sym_nfa(n2, k, eps=eps2, tag='B', names=names2, partial=True)
    v1, v2 = NfaView(N1, names1, syms), NfaView(N2, names2, syms)
    job.inputs['N1'], job.inputs['N2'] = N1, N2
    job.decoders['N1'], job.decoders['N2'] = v1.to_json, v2.to_json
    job.inputs['history'] = None
    job.decoders['history'] = lambda mv: [c.conc(h, mv) for h in hist]
    rp = ('binary', {'op': op, 'N1': v1.to_json, 'N2': v2.to_json, 'history': lambda mv: [c.conc(h, mv) for h in hist],
                     'explicit': explicit_generator})
    if op == 'union':
        R = job.call(NA.nfa_union, N1, N2, *([IdentifierGenerator()] if explicit_generator else []), replay=rp)
    else:
        R = job.call(NA.nfa_concatenation, N1, N2, replay=rp)
    job.lifted()
    if R is None:
        return job.solve()
    rv = NfaView(R, None, syms)
    # size: union introduces exactly one state that is not an operand state
    from .harness_util import count_map
    size = count_map([rv.qpres[s] for s in rv.names])
    expect = n1 + n2 + (1 if op == 'union' else 0)
    job.oblige('%s: the result has %d states (operand states%s)' % (op, expect, ' plus one new state' if op == 'union' else ''),
               d.any_(g for s, g in size.items() if s != expect), replay=rp)
    B = 2 ** len(rv.names) + 2 ** (n1 + n2) - 2
    B = min(B, 2 ** (n1 + n2 + 1) + 2 ** (n1 + n2) - 2)
    W = c.sym_positions(syms, B)
    ar = rv.init()
    a1, a2 = v1.init(), v2.init()
    if op == 'concatenation':
        # split simulation: S1 = N1 states after the prefix, S2 = N2 states for some split point
        s1 = v1.init()
        s2 = {q: d.and_(v1.acc(s1), g) for q, g in v2.init().items()}
    for l in range(B + 1):
        if op == 'union':
            ref = d.or_(v1.acc(a1), v2.acc(a2))
        else:
            ref = v2.acc(s2)
        job.oblige('%s: language agrees with the definition on every word of length %d' % (op, l), d.iff(rv.acc(ar), ref) ^ 1, replay=rp)
        if l < B:
            ar = rv.step(ar, W[l])
            if op == 'union':
                a1, a2 = v1.step(a1, W[l]), v2.step(a2, W[l])
            else:
                s1 = v1.step(s1, W[l])
                s2 = v2.step(s2, W[l])
                init2 = v2.init()
                s2 = {q: d.or_(s2[q], d.and_(v1.acc(s1), init2[q])) for q in names2}
    job.oblige('operands unchanged', d.or_(nfa_changed(v1, NfaView(N1, names1, syms)), nfa_changed(v2, NfaView(N2, names2, syms))), replay=rp)
    job.failures_as_obligations(replay=rp)
    return job.solve()


def job_star(job, n, k, eps, names, K=4, explicit_generator=False):
    import gambatools.nfa_algorithms as NA
    from gambatools.identifier_generator import IdentifierGenerator
    from .oracles import NfaView
    from .harness_util import count_map
    job.functions('nfa_algorithms', ['nfa_repetition'])
    d = E.dag
    hist = set_generator_history(K)
    N1, names1, syms = c.sym_nfa(n, k, eps=eps, tag='A', names=names, partial=True)
    v1 = NfaView(N1, names1, syms)
    job.inputs['N1'] = N1
    job.decoders['N1'] = v1.to_json
    job.inputs['history'] = None
    job.decoders['history'] = lambda mv: [c.conc(h, mv) for h in hist]
    rp = ('star', {'N1': v1.to_json, 'history': lambda mv: [c.conc(h, mv) for h in hist], 'explicit': explicit_generator})
    R = job.call(NA.nfa_repetition, N1, *([IdentifierGenerator()] if explicit_generator else []), replay=rp)
    job.lifted()
    if R is None:
        return job.solve()
    rv = NfaView(R, None, syms)
    size = count_map([rv.qpres[s] for s in rv.names])
    job.oblige('star: the result has %d states (operand states plus one new state)' % (n + 1), d.any_(g for s, g in size.items() if s != n + 1), replay=rp)
    B = 2 ** (n + 1) + 2 ** n - 2
    W = c.sym_positions(syms, B)
    ar = rv.init()
    init1 = v1.init()
    s = dict(init1)
    boundary = TRUE
    for l in range(B + 1):
        job.oblige('star: language agrees with the definition on every word of length %d' % l, d.iff(rv.acc(ar), boundary) ^ 1, replay=rp)
        if l < B:
            ar = rv.step(ar, W[l])
            s = v1.step(s, W[l])
            boundary = v1.acc(s)
            s = {q: d.or_(s[q], d.and_(boundary, init1[q])) for q in names1}
    job.oblige('operand unchanged', nfa_changed(v1, NfaView(N1, names1, syms)), replay=rp)
    job.failures_as_obligations(replay=rp)
    return job.solve()


def jobs(tier):
    J = []

    def add(name, fn, timeout=None, **params):
        J.append({'name': name, 'fn': fn, 'params': params, **({'timeout': timeout} if timeout else {})})
    gen_names = (['q0', 'q1'], ['q2'])
    other = (['s', 't'], ['u'])
    if tier == 'quick':
        for op in ('union', 'concatenation'):
            add('%s_gen_names' % op, job_binary, op=op, n1=2, n2=1, k=1, eps1='', eps2='', names1=gen_names[0], names2=gen_names[1])
            add('%s_gen_names_swapped' % op, job_binary, op=op, n1=1, n2=2, k=1, eps1='', eps2='', names1=['q3'], names2=['q1', 'q2'])
            add('%s_eps_us_us' % op, job_binary, op=op, n1=2, n2=1, k=1, eps1='_', eps2='_', names1=other[0], names2=other[1])
            add('%s_eps_mixed' % op, job_binary, op=op, n1=2, n2=1, k=1, eps1='_', eps2='ε', names1=other[0], names2=other[1])
            add('%s_eps_mixed2' % op, job_binary, op=op, n1=1, n2=2, k=2, eps1='', eps2='_', names1=['u'], names2=['s', 't'])
        add('union_explicit_generator', job_binary, op='union', n1=2, n2=1, k=1, eps1='', eps2='', names1=gen_names[0], names2=gen_names[1], explicit_generator=True)
        add('star_gen_names', job_star, n=2, k=1, eps='', names=['q0', 'q1'])
        add('star_gen_names_k2', job_star, n=2, k=2, eps='', names=['q1', 'q3'])
        add('star_eps_us', job_star, n=2, k=1, eps='_', names=['s', 't'])
        add('star_eps_unicode', job_star, n=2, k=2, eps='ε', names=['s', 't'])
        add('star_explicit_generator', job_star, n=2, k=1, eps='', names=['q0', 'q1'], explicit_generator=True)
        add('star_n1', job_star, n=1, k=1, eps='', names=['q0'])
        # generated names of different widths (q9 / q10: comparing names as strings instead of numbers goes wrong here)
        add('star_names_q9_q10', job_star, n=2, k=1, eps='', names=['q9', 'q10'], K=10)
        add('union_names_q9_q10', job_binary, op='union', n1=1, n2=1, k=1, eps1='', eps2='', names1=['q9'], names2=['q10'], K=10)
    else:
        for op in ('union', 'concatenation'):
            add('%s_2_2_gen_names' % op, job_binary, op=op, n1=2, n2=2, k=1, eps1='', eps2='_', names1=['q0', 'q1'], names2=['q2', 'q3'], timeout=3000)
            add('%s_2_2_k2' % op, job_binary, op=op, n1=2, n2=2, k=2, eps1='_', eps2='', names1=['s', 't'], names2=['q0', 'q4'], timeout=3000)
            add('%s_3_1' % op, job_binary, op=op, n1=3, n2=1, k=1, eps1='ε', eps2='', names1=['q1', 'q2', 'q3'], names2=['q0'], timeout=3000)
        add('star_n3', job_star, n=3, k=1, eps='', names=['q0', 'q1', 'q2'], K=5, timeout=3000)
        add('star_n3_k2', job_star, n=3, k=2, eps='_', names=['q1', 'q2', 'q4'], K=5, timeout=3000)
    return J


# ------------------------------------------------------------------ native replay
def _lang(js, n):
    return {w for w in nat.words_upto(js['Sigma'], n) if nat.ref_nfa_accepts(js, w)}


def _set_history(hist):
    import gambatools.nfa_algorithms as NA
    gens = []
    for f in (NA.nfa_union, NA.nfa_repetition):
        for dflt in (f.__defaults__ or ()):
            if type(dflt).__name__ == 'IdentifierGenerator' and all(dflt is not g for g in gens):
                gens.append(dflt)
    for g, h in zip(gens, hist):
        g.index = h


def _replay_binary(rp):
    import gambatools.nfa_algorithms as NA
    from gambatools.identifier_generator import IdentifierGenerator
    A, B = nat.mk_nfa(rp['N1']), nat.mk_nfa(rp['N2'])
    before = (nat.nfa_json_of(A), nat.nfa_json_of(B))
    _set_history(rp['history'])
    n = len(A.Q) + len(B.Q) + 3
    sig = sorted(set(rp['N1']['Sigma']) | set(rp['N2']['Sigma']))
    L1 = {w for w in nat.words_upto(sig, n) if nat.ref_nfa_accepts(rp['N1'], w)}
    L2 = {w for w in nat.words_upto(sig, n) if nat.ref_nfa_accepts(rp['N2'], w)}
    exp = (L1 | L2) if rp['op'] == 'union' else {u + v for u in L1 for v in L2 if len(u + v) <= n}
    problems = []
    try:
        if rp['op'] == 'union':
            R = NA.nfa_union(A, B, IdentifierGenerator()) if rp.get('explicit') else NA.nfa_union(A, B)
        else:
            R = NA.nfa_concatenation(A, B)
        rj = nat.nfa_json_of(R)
        nat.mk_nfa(rj)
        got = {w for w in nat.words_upto(sig, n) if nat.ref_nfa_accepts(rj, w)}
        if got != exp:
            problems.append('language differs on %r' % sorted(got ^ exp, key=lambda w: (len(w), w))[:3])
        want = len(A.Q) + len(B.Q) + (1 if rp['op'] == 'union' else 0)
        if len(R.Q) != want:
            problems.append('result has %d states, expected %d' % (len(R.Q), want))
    except Exception as e:
        problems.append('raised %r' % e)
    if (nat.nfa_json_of(A), nat.nfa_json_of(B)) != before:
        problems.append('operands modified')
    return bool(problems), {'problems': problems}


def _replay_star(rp):
    import gambatools.nfa_algorithms as NA
    from gambatools.identifier_generator import IdentifierGenerator
    A = nat.mk_nfa(rp['N1'])
    before = nat.nfa_json_of(A)
    _set_history(rp['history'])
    n = len(A.Q) + 4
    sig = sorted(rp['N1']['Sigma'])
    L1 = {w for w in nat.words_upto(sig, n) if nat.ref_nfa_accepts(rp['N1'], w)}
    exp = {''}
    while True:
        new = exp | {u + v for u in exp for v in L1 if len(u + v) <= n}
        if new == exp:
            break
        exp = new
    problems = []
    try:
        R = NA.nfa_repetition(A, IdentifierGenerator()) if rp.get('explicit') else NA.nfa_repetition(A)
        rj = nat.nfa_json_of(R)
        nat.mk_nfa(rj)
        got = {w for w in nat.words_upto(sig, n) if nat.ref_nfa_accepts(rj, w)}
        if got != exp:
            problems.append('language differs on %r' % sorted(got ^ exp, key=lambda w: (len(w), w))[:3])
        if len(R.Q) != len(A.Q) + 1:
            problems.append('result has %d states, expected %d' % (len(R.Q), len(A.Q) + 1))
    except Exception as e:
        problems.append('raised %r' % e)
    if nat.nfa_json_of(A) != before:
        problems.append('operand modified')
    return bool(problems), {'problems': problems}


REPLAY = {'binary': _replay_binary, 'star': _replay_star}
