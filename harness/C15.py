"""C15 -- simulation traces and derivations are genuine witnesses and are always produced."""
from . import common as c
from . import nat
from .common import E, L, TRUE, FALSE

META = {
    'bounds': {'quick': 'DFA: n<=3, |Sigma|<=2, words<=3; NFA: n<=3 over {a} and n=2 over {a,b}, every transition triple present or not '
                        "(epsilon cycles and self loops included), epsilon '' and '_', words<=2, every set.pop / next(iter()) choice "
                        'symbolic; PDA: the C09 families, words<=2, limit 3; CNF grammars: 2-3 variables, all generated words of '
                        'length 1..3, leftmost and rightmost',
               'thorough': 'NFA n=3 over {a,b}, words<=3; PDA words<=3; CNF words<=4'},
    'outside': 'larger automata / longer words; PDA simulations whose epsilon closures hit the iteration limit',
    'oracle': 'every alternative run the lifted function can return is enumerated from the guarded result and validated step by '
              'step against the transition bits (first row initial with the whole word, each step one transition consuming from '
              'the front or an epsilon move, last row accepting with nothing unread); acceptance by the C01 / C09 / C07 references',
    'assumptions': ['automata / grammars valid', 'termination is claimed within the stated loop-unwinding bound; a satisfiable '
                    'unwinding obligation is replayed natively under a wall-clock limit'],
}


def job_dfa(job, n, k, maxlen):
    from gambatools.dfa_algorithms import dfa_simulate_word
    from .oracles import DfaView
    job.functions('dfa_algorithms', ['dfa_simulate_word'])
    d = E.dag
    Dm, names, syms = c.sym_dfa(n, k)
    view = DfaView(Dm, names, syms)
    job.inputs['D'] = Dm
    job.decoders['D'] = view.to_json
    words = c.words_upto(syms, maxlen)
    res = {w: job.call(dfa_simulate_word, Dm, w, replay=('dfa', {'D': view.to_json, 'word': w})) for w in words}
    job.lifted()
    nd = c.native('dfa_algorithms')
    job.differential(20, lambda mv: {w: [tuple(x) for x in c.conc(res[w], mv)] for w in words},
                     lambda mv: (lambda Dn: {w: [tuple(x) for x in nd.dfa_simulate_word(Dn, w)] for w in words})(nat.mk_dfa(view.to_json(mv), c.native('dfa'))), 'dfa_simulate_word')
    for w in words:
        if res[w] is None:
            continue
        rp = ('dfa', {'D': view.to_json, 'word': w})
        # reference run as an engine value
        vec = view.init()
        rows = [(E.mk([(g, q) for q, g in vec.items()]), w)]
        for i, a in enumerate(w):
            vec = view.step(vec, {a: TRUE})
            rows.append((E.mk([(g, q) for q, g in vec.items()]), w[i + 1:]))
        job.oblige('dfa_simulate_word(D, %r) is the run with the unread suffixes' % w, L.EQ(res[w], L.GList(rows)) ^ 1, replay=rp)
    job.failures_as_obligations(replay=('dfa', {'D': view.to_json, 'word': words[-1]}))
    return job.solve()


def row_alts(row, nfields):
    """[(guard, tuple of concrete fields)] of a row value (tuple with union fields, or union of tuples)"""
    d = E.dag
    out = []
    for g, r in E.alts(row):
        if not isinstance(r, tuple) or len(r) != nfields:
            out.append((g, None))
            continue
        parts = [[(TRUE, x)] if not c.L.is_sym(x) else E.inst(x) for x in r]
        import itertools
        for combo in itertools.product(*parts):
            gg = d.all_([g] + [h for h, _ in combo])
            if gg != FALSE:
                out.append((gg, tuple(v for _, v in combo)))
    return out


def runs_valid(result, nfields, first_ok, last_ok, step_ok, row_fn=None):
    """-> (is_none literal, valid literal): result is None | list of rows; valid = it is a list whose first row satisfies
    first_ok(row) (a literal), consecutive rows satisfy step_ok(row, row1), the last row last_ok(row). Rows are evaluated
    per alternative with their guards; for any one model exactly one alternative of every row is active, so the
    conjunction over the steps is evaluated on one consistent run."""
    d = E.dag
    is_none = FALSE
    valid = FALSE
    for g, v in E.alts(result):
        if v is None:
            is_none = d.or_(is_none, g)
            continue
        if not isinstance(v, (L.GList, list)):
            continue
        alts = v._need_alts() if isinstance(v, L.GList) else [(TRUE, tuple(v))]
        for h, rows in alts:
            gh = d.and_(g, h)
            if gh == FALSE or not rows:
                continue
            ra = [(row_fn(r) if row_fn else row_alts(r, nfields)) for r in rows]
            ok = [gh]
            ok.append(d.any_(d.and_(x, first_ok(r)) for x, r in ra[0] if r is not None))
            ok.append(d.any_(d.and_(x, last_ok(r)) for x, r in ra[-1] if r is not None))
            for A, B in zip(ra, ra[1:]):
                ok.append(d.any_(d.all_([x, y, step_ok(r, r1)]) for x, r in A if r is not None for y, r1 in B if r1 is not None))
            valid = d.or_(valid, d.all_(ok))
    return is_none, valid


def valid_nfa_run(view, run, word):
    """literal: the concrete list `run` of (state, unread) rows is an accepting run of the symbolic NFA on `word`"""
    d = E.dag
    if not isinstance(run, list) or not run:
        return FALSE
    rows = []
    for r in run:
        if not (isinstance(r, tuple) and len(r) == 2):
            return FALSE
        rows.append(r)
    if rows[0][1] != word or rows[-1][1] != '':
        return FALSE
    ok = [view.q0.get(rows[0][0], FALSE), view.F.get(rows[-1][0], FALSE)]
    for (q, u), (q1, u1) in zip(rows, rows[1:]):
        if u1 == u:
            ok.append(view.eps_t(q, q1))
        elif len(u) == len(u1) + 1 and u[1:] == u1:
            ok.append(view.sym_t(q, u[0], q1))
        else:
            return FALSE
    return d.all_(ok)


def job_nfa(job, n, k, maxlen, eps, partial=True):
    from gambatools.nfa_algorithms import nfa_simulate_word
    from .oracles import NfaView
    job.functions('nfa_algorithms', ['nfa_simulate_word', 'nfa_find_epsilon_path', 'nfa_find_transition', 'nfa_do_transition', 'epsilon_closure'])
    d = E.dag
    N, names, syms = c.sym_nfa(n, k, eps=eps, partial=partial)
    view = NfaView(N, names, syms)
    job.inputs['N'] = N
    job.decoders['N'] = view.to_json
    words = c.words_upto(syms, maxlen)
    E.while_bound = 3 * n + 6
    res = {w: job.call(nfa_simulate_word, N, w, replay=('nfa', {'N': view.to_json, 'word': w})) for w in words}
    job.lifted()
    for w in words:
        rp = ('nfa', {'N': view.to_json, 'word': w})
        if res[w] is None and getattr(job, 'failed_call', False):
            continue
        acc = view.accepts(w)

        def step_ok(r, r1):
            (q, u), (q1, u1) = r, r1
            if u1 == u:
                return view.eps_t(q, q1)
            if isinstance(u, str) and isinstance(u1, str) and len(u) == len(u1) + 1 and u[1:] == u1:
                return view.sym_t(q, u[0], q1)
            return FALSE
        is_none, valid = runs_valid(res[w], 2, lambda r: d.and_(view.q0.get(r[0], FALSE), TRUE if r[1] == w else FALSE),
                                    lambda r: d.and_(view.F.get(r[0], FALSE), TRUE if r[1] == '' else FALSE), step_ok)
        bad_acc = d.and_(acc, valid ^ 1)
        bad_rej = d.and_(acc ^ 1, is_none ^ 1)
        job.oblige('nfa_simulate_word(N, %r): an accepted word gets a genuine accepting run' % w, bad_acc, replay=rp)
        job.oblige('nfa_simulate_word(N, %r): a rejected word gets None' % w, bad_rej, replay=rp)
    job.failures_as_obligations(replay=('nfa', {'N': view.to_json, 'word': words[-1]}))
    if n >= 2:
        job.must_reach('accepted word through an epsilon cycle', d.all_([view.eps_t(names[0], names[1]), view.eps_t(names[1], names[0]), view.accepts(words[-1])]))
    return job.solve()


def valid_pda_run(trans, fbits, eps, run, word, q0='p'):
    d = E.dag
    if not isinstance(run, list) or not run:
        return FALSE
    for r in run:
        if not (isinstance(r, tuple) and len(r) == 3):
            return FALSE
    if run[0][0] != q0 or run[0][1] != word or list(run[0][2]) != [] or run[-1][1] != '':
        return FALSE
    ok = [fbits.get(run[-1][0], FALSE)]
    for (q, u, st), (q1, u1, st1) in zip(run, run[1:]):
        st, st1 = tuple(st), tuple(st1)
        if u1 == u:
            label = eps
        elif len(u) == len(u1) + 1 and u[1:] == u1:
            label = u[0]
        else:
            return FALSE
        cands = []
        for lit, (p, a, x, r_, y) in trans:
            if p != q or r_ != q1 or a != label:
                continue
            if x != eps and not (st and st[-1] == x):
                continue
            s2 = st if x == eps else st[:-1]
            if y != eps:
                s2 = s2 + (y,)
            if s2 == st1:
                cands.append(lit)
        ok.append(d.any_(cands))
    return d.all_(ok)


def job_pda(job, fam, limit, maxlen, eps='_', seed=0, nsym=6):
    from gambatools.pda_algorithms import pda_simulate_word
    from .pda_sym import sym_pda, pda_json, RefPDA
    from .C09 import family, STATES, set_limit
    from .harness_util import count_map
    job.functions('pda_algorithms', ['pda_simulate_word', 'pda_find_epsilon_path', 'pda_find_transition', 'pda_epsilon_closure', 'pda_do_transition'])
    d = E.dag
    gamma, fixed, sym = family(fam, eps, seed, nsym)
    sigma = ['a']
    P, trans, fbits = sym_pda(STATES, sigma, gamma, eps, fixed, sym)
    dec = pda_json(STATES, sigma, gamma, eps, trans, fbits, 'p')
    job.inputs['P'] = P
    job.decoders['P'] = dec
    set_limit(limit)
    E.while_bound = 3 * limit + 8
    words = c.words_upto(sigma, maxlen)
    res = {w: job.call(pda_simulate_word, P, w, replay=('pda', {'P': dec, 'word': w, 'limit': limit})) for w in words}
    job.lifted()
    ref = RefPDA(trans, fbits, {'p': TRUE}, eps, maxdepth=(limit + 2) * (maxlen + 1) + maxlen + 1)
    sizes_ok = lambda conf: d.any_(g for k_, g in count_map([g for g in conf.values() if g != FALSE]).items() if k_ <= limit)
    for w in words:
        rp = ('pda', {'P': dec, 'word': w, 'limit': limit})
        cur, fr = ref.closure(ref.initial(), limit + 1)
        premise = d.and_(d.any_(fr.values()) ^ 1, sizes_ok(cur))
        for a in w:
            cur, fr = ref.closure(ref.moves(cur, a), limit + 1)
            premise = d.all_([premise, d.any_(fr.values()) ^ 1, sizes_ok(cur)])
        acc = ref.accepts_lit(cur)

        def pstep(r, r1):
            (q, u, st), (q1, u1, st1) = r, r1
            st, st1 = tuple(st), tuple(st1)
            if u1 == u:
                label = eps
            elif isinstance(u, str) and isinstance(u1, str) and len(u) == len(u1) + 1 and u[1:] == u1:
                label = u[0]
            else:
                return FALSE
            cands = []
            for lit, (p, a, x, r_, y) in trans:
                if p != q or r_ != q1 or a != label:
                    continue
                if x != eps and not (st and st[-1] == x):
                    continue
                s2 = st if x == eps else st[:-1]
                if y != eps:
                    s2 = s2 + (y,)
                if s2 == st1:
                    cands.append(lit)
            return d.any_(cands)
        is_none, valid = runs_valid(res[w], 3, lambda r: TRUE if (r[0] == 'p' and r[1] == w and len(r[2]) == 0) else FALSE,
                                    lambda r: d.and_(fbits.get(r[0], FALSE), TRUE if r[1] == '' else FALSE), pstep)
        bad_run = d.and_(is_none ^ 1, valid ^ 1)
        bad_none = d.all_([is_none, premise, acc])
        job.oblige('pda_simulate_word(P, %r): whatever run is returned is a genuine accepting run' % w, bad_run, replay=rp)
        job.oblige('pda_simulate_word(P, %r): an accepted word gets a run (no closure hits the limit)' % w, bad_none, replay=rp)
    job.failures_as_obligations(replay=('pda', {'P': dec, 'word': words[-1], 'limit': limit}))
    return job.solve()


def valid_derivation(entries, start, der, word, leftmost):
    d = E.dag
    if not isinstance(der, list) or not der:
        return FALSE
    forms = []
    for x in der:
        if not isinstance(x, list):
            return FALSE
        forms.append([str(s) for s in x])
    if forms[0] != [start] or forms[-1] != list(word):
        return FALSE
    from .cfg_sym import is_var
    ok = []
    for f, f1 in zip(forms, forms[1:]):
        idx = [i for i, s in enumerate(f) if is_var(s)]
        if not idx:
            return FALSE
        i = idx[0] if leftmost else idx[-1]
        n_new = len(f1) - len(f) + 1
        if n_new < 0 or f1[:i] != f[:i] or f1[i + n_new:] != f[i + 1:]:
            return FALSE
        rhs = tuple(f1[i:i + n_new])
        ok.append(d.any_(lit for lit, X, r in entries if X == f[i] and tuple(r) == rhs))
    return d.all_(ok)


def job_cfg(job, variables, maxlen, pairs=None, start_pairs_only=False):
    from gambatools.cfg_algorithms import cfg_derive_word
    from .cfg_sym import sym_cfg, entries_json, GrammarSem
    from .C07 import cnf_candidates
    job.functions('cfg_algorithms', ['cfg_derive_word', 'cfg_cyk_matrix'])
    job.functions('algorithms', ['first_index', 'last_index'])
    d = E.dag
    terminals = ['a', 'b']
    start = variables[0]
    cands = cnf_candidates(variables, terminals, start, pairs)
    if start_pairs_only:        # binary rules for the start variable only (keeps the family below the encoder's exact-pruning limit)
        cands = [(X, r) for X, r in cands if len(r) != 2 or X == start]
    G, entries = sym_cfg(variables, terminals, cands, start)
    dec = entries_json(entries, variables, terminals, start)
    job.inputs['G'] = G
    job.decoders['G'] = dec
    words = [w for w in c.words_upto(terminals, maxlen) if w]
    E.while_bound = 4 * maxlen + 6
    for w in words:
        sem = GrammarSem(entries, variables, w)
        gen = sem.derives(start)
        for kind in ('leftmost', 'rightmost'):
            rp = ('cfg', {'G': dec, 'word': w, 'deriv': kind})
            # the function is specified for generated words only: run it under that assumption
            with L._Guarded(gen):
                r = job.call(cfg_derive_word, G, w, kind, replay=rp)
            if r is None:
                continue
            from .cfg_sym import is_var
            left = kind == 'leftmost'

            def form_alts(row):
                return [(g_, [str(s) for s in f]) if isinstance(f, list) else (g_, None) for g_, f in E.inst(row)]

            def dstep(f, f1):
                idx = [i for i, s in enumerate(f) if is_var(s)]
                if not idx:
                    return FALSE
                i = idx[0] if left else idx[-1]
                k_ = len(f1) - len(f) + 1
                if k_ < 0 or f1[:i] != f[:i] or f1[i + k_:] != f[i + 1:]:
                    return FALSE
                rhs = tuple(f1[i:i + k_])
                return d.any_(lit for lit, X, r_ in entries if X == f[i] and tuple(r_) == rhs)
            is_none, valid = runs_valid(r, 0, lambda f: TRUE if f == [start] else FALSE, lambda f: TRUE if f == list(w) else FALSE, dstep, row_fn=form_alts)
            bad = d.and_(gen, valid ^ 1)
            job.oblige('cfg_derive_word(G, %r, %s) is a genuine %s derivation' % (w, kind, kind), bad, replay=rp)
    job.lifted()
    job.failures_as_obligations(replay=('cfg', {'G': dec, 'word': words[-1], 'deriv': 'leftmost'}))
    return job.solve()


def jobs(tier):
    J = []

    def add(name, fn, timeout=None, **params):
        J.append({'name': name, 'fn': fn, 'params': params, **({'timeout': timeout} if timeout else {})})
    q = tier == 'quick'
    tmo = 900 if q else 3000
    add('dfa_n3_k2', job_dfa, n=3, k=2, maxlen=3 if q else 4)
    add('nfa_n3_k1', job_nfa, n=3, k=1, maxlen=1 if q else 2, eps='', timeout=tmo)
    add('nfa_n2_k2_us', job_nfa, n=2, k=2, maxlen=2, eps='_', timeout=tmo)
    add('nfa_n2_k1_dense', job_nfa, n=2, k=1, maxlen=3, eps='', partial=False, timeout=tmo)
    if not q:
        add('nfa_n3_k2', job_nfa, n=3, k=2, maxlen=3, eps='', timeout=tmo)
    for fam in ('grow_cycle', 'replace_and_pop', 'two_stack_symbols', 'replace_only'):
        add('pda_%s' % fam, job_pda, fam=fam, limit=3, maxlen=2 if q else 3, nsym=(3 if fam in ('two_stack_symbols', 'replace_only') else 5) if q else 7, timeout=tmo)
    for seed in ([0] if q else range(6)):
        add('pda_random%d' % seed, job_pda, fam='random', seed=seed, limit=3, maxlen=2, nsym=4 if q else 7, timeout=tmo)
    add('cfg_2vars', job_cfg, variables=['S', 'A'], maxlen=3 if q else 4, timeout=tmo)
    add('cfg_3vars', job_cfg, variables=['S', 'A', 'B'], pairs=[['A', 'B']] if q else [['A', 'B'], ['B', 'B']], maxlen=3, timeout=tmo)
    add('cfg_3vars_swapped', job_cfg, variables=['S', 'A', 'B'], pairs=[['A', 'B'], ['B', 'A']], maxlen=2, start_pairs_only=True, timeout=tmo)
    add('cfg_T', job_cfg, variables=['S', 'T'], maxlen=3 if q else 4, timeout=tmo)
    return J


# ------------------------------------------------------------------ native replay
def _replay_dfa(rp):
    from gambatools.dfa_algorithms import dfa_simulate_word
    D = nat.mk_dfa(rp['D'])
    delta = {(q, a): t for q, a, t in rp['D']['delta']}
    bad = {}
    for w in nat.words_upto(rp['D']['Sigma'], len(rp['word'])):
        got = [tuple(x) for x in dfa_simulate_word(D, w)]
        q = rp['D']['q0']
        exp = [(q, w)]
        for i, a in enumerate(w):
            q = delta[q, a]
            exp.append((q, w[i + 1:]))
        if got != exp:
            bad[w] = {'library': got, 'expected': exp}
    return bool(bad), bad


def _valid_nfa_run(js, run, w):
    T = {(q, a): set(ts) for q, a, ts in js['delta']}
    if not run or run[0] != (js['q0'], w) or run[-1][1] != '' or run[-1][0] not in set(js['F']):
        return False
    for (q, u), (q1, u1) in zip(run, run[1:]):
        if u1 == u:
            if q1 not in T.get((q, js['epsilon']), ()):
                return False
        elif u[1:] == u1 and len(u) == len(u1) + 1:
            if u[0] == js['epsilon'] or q1 not in T.get((q, u[0]), ()):
                return False
        else:
            return False
    return True


def _replay_nfa(rp):
    from gambatools.nfa_algorithms import nfa_simulate_word
    js = rp['N']
    N = nat.mk_nfa(js)
    bad = {}
    for w in nat.words_upto(js['Sigma'], len(rp['word'])):
        try:
            got = nfa_simulate_word(N, w)
        except Exception as e:
            bad[w] = repr(e)
            continue
        acc = nat.ref_nfa_accepts(js, w)
        if acc and (got is None or not _valid_nfa_run(js, [tuple(x) for x in got], w)):
            bad[w] = {'accepted but run': got}
        if not acc and got is not None:
            bad[w] = {'rejected but run': got}
    return bool(bad), bad


def _replay_pda(rp):
    from gambatools.global_settings import GambaTools
    from gambatools.pda_algorithms import pda_simulate_word
    js = rp['P']
    GambaTools.pda_epsilon_closure_max_iterations = rp['limit']
    P = nat.mk_pda(js)
    eps = js['epsilon']
    bad = {}
    for w in nat.words_upto(js['Sigma'], len(rp['word'])):
        try:
            got = pda_simulate_word(P, w)
        except Exception as e:
            bad[w] = repr(e)
            continue
        acc, complete, sizes = nat.ref_pda_run(js, w)
        if got is None:
            if acc and complete and max(sizes) <= rp['limit']:
                bad[w] = 'accepted but no run'
            continue
        run = [(q, u, tuple(st)) for q, u, st in got]
        ok = run and run[0] == (js['q0'], w, ()) and run[-1][1] == '' and run[-1][0] in set(js['F'])
        for (q, u, st), (q1, u1, st1) in zip(run, run[1:]):
            label = eps if u1 == u else (u[0] if (u[1:] == u1 and len(u) == len(u1) + 1) else None)
            if label is None or (q1, st1) not in nat.ref_pda_step(js, {(q, st)}, label):
                ok = False
        if not ok:
            bad[w] = {'invalid run': got}
    return bool(bad), bad


def _replay_cfg(rp):
    from gambatools.cfg_algorithms import cfg_derive_word
    js = rp['G']
    G = nat.mk_cfg(js)
    rules = {(X, tuple(r)) for X, r in js['R']}
    bad = {}
    for w in [x for x in nat.words_upto(js['Sigma'], len(rp['word'])) if x]:
        if not nat.ref_cfg_accepts(js, w):
            continue
        for kind in ('leftmost', 'rightmost'):
            try:
                der = [[str(s) for s in f] for f in cfg_derive_word(G, w, kind)]
            except Exception as e:
                bad[w + '/' + kind] = repr(e)
                continue
            ok = der and der[0] == [js['S']] and der[-1] == list(w)
            for f, f1 in zip(der, der[1:]):
                idx = [i for i, s in enumerate(f) if nat._is_var(s)]
                if not idx:
                    ok = False
                    break
                i = idx[0] if kind == 'leftmost' else idx[-1]
                k = len(f1) - len(f) + 1
                if k < 0 or f1[:i] != f[:i] or f1[i + k:] != f[i + 1:] or (f[i], tuple(f1[i:i + k])) not in rules:
                    ok = False
            if not ok:
                bad[w + '/' + kind] = der
    return bool(bad), bad


REPLAY = {'dfa': _replay_dfa, 'nfa': _replay_nfa, 'pda': _replay_pda, 'cfg': _replay_cfg}
