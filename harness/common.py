"""Shared harness infrastructure: booting the lifted + native copies of the library, symbolic input
builders, model decoding, differential validation, obligation bookkeeping.

A *job* is one lifted execution with its obligations; it runs in its own process (the engine is a
process-wide singleton) and returns a JSON-able result dict to the driver (run.py).
"""
import hashlib
import importlib
import itertools
import os
import random
import sys
import time

REPO = os.environ.get('GAMBATOOLS_REPO', '/repo')
SRC = os.path.join(REPO, 'src')
PKG = os.path.join(SRC, 'gambatools')

sys.setrecursionlimit(20000)
if SRC not in sys.path:
    sys.path.insert(0, SRC)

NATIVE = {}
_NATIVE_MODS = ['dfa', 'nfa', 'gnfa', 'dfa_algorithms', 'nfa_algorithms', 'regexp', 'regexp_algorithms', 'cfg',
                'cfg_algorithms', 'pda', 'pda_algorithms', 'tm', 'tm_algorithms', 'language_algorithms',
                'global_settings', 'language_generator', 'list_utility', 'algorithms', 'automaton_algorithms',
                'identifier_generator', 'printing', 'automaton']

_booted = False


def boot(extra_native=()):
    """import unmodified copies of the library (for differential validation), then install the
    lifting import hook so that every later `import gambatools.x` yields the rewritten module"""
    global _booted, L, E, TRUE, FALSE
    if _booted:
        return
    for m in list(_NATIVE_MODS) + list(extra_native):
        NATIVE[m] = importlib.import_module('gambatools.' + m)
    for k in [k for k in sys.modules if k.startswith('gambatools.')]:
        del sys.modules[k]
    import gambatools as _pkg
    for k in list(vars(_pkg)):
        if k in NATIVE or k in extra_native:
            try:
                delattr(_pkg, k)
            except AttributeError:
                pass
    from symlift import rewrite
    rewrite.install(PKG)
    _booted = True


from symlift import engine as L          # noqa: E402
from symlift.engine import E             # noqa: E402
from symlift.bdag import TRUE, FALSE, Evaluator  # noqa: E402


def native(mod, name=None):
    m = NATIVE[mod]
    return getattr(m, name) if name else m


def src_hash(mod, names):
    """sha256 (12 hex) of the source segments of the named top-level functions/classes"""
    import ast
    path = os.path.join(PKG, mod + '.py')
    text = open(path).read()
    tree = ast.parse(text)
    out = {}
    for node in tree.body:
        if isinstance(node, (ast.FunctionDef, ast.ClassDef)) and node.name in names:
            seg = ast.get_source_segment(text, node) or ''
            out['%s.%s' % (mod, node.name)] = hashlib.sha256(seg.encode()).hexdigest()[:12]
    for n in names:
        out.setdefault('%s.%s' % (mod, n), 'missing')
    return out


# ---------------------------------------------------------------------- symbolic inputs
def set_exhaustive(nbits, fold=True):
    """number of input bits up to which the encoder keeps complete truth tables (see bdag.RandomEvaluator); must be
    called before the job creates its variables. Only the encoder's pruning uses the tables, never a verdict.
    fold=False: the tables answer feasibility questions (skip dead branches, stop loops) but guards are NOT simplified
    semantically, so 'this is printed on every input' stays a formula that the solver has to decide."""
    type(E.rand).EXHAUSTIVE = nbits
    E.dag.fold = fold


def choice(vals, tag):
    """a value that is exactly one of vals (one-hot chain of len(vals)-1 fresh variables)"""
    d = E.dag
    alts = []
    nb = TRUE
    vals = list(vals)
    for i, v in enumerate(vals):
        if i == len(vals) - 1:
            alts.append((nb, v))
        else:
            s = E.fresh('%s_%d' % (tag, i))
            alts.append((d.and_(nb, s), v))
            nb = d.and_(nb, s ^ 1)
    return E.mk(alts)


def alt_map(x):
    """{concrete value: guard} of a union / concrete value"""
    return {v: g for g, v in E.alts(x)}


SYMS = ['a', 'b', 'c']


def sym_dfa(n, k, tag='', names=None, q0=None, syms=None):
    from gambatools.dfa import DFA
    names = names or ['q%d' % i for i in range(n)]
    syms = syms if syms is not None else SYMS[:k]
    Q = L.GSet(names)
    Sigma = L.GSet(syms)
    delta = L.GDict()
    for q in names:
        for a in syms:
            delta.m[(q, a)] = [TRUE, choice(names, '%sd_%s_%s' % (tag, q, a))]
    F = L.GSet()
    for q in names:
        F.m[q] = E.fresh('%sf_%s' % (tag, q))
    return DFA(Q, Sigma, delta, q0 or names[0], F), names, syms


def sym_nfa(n, k, eps='', tag='', names=None, partial=False, syms=None):
    """every triple (q, a, q') present or not; with partial=True additionally every key (q, a) may be
    absent from the (default)dict, as the parser builds it"""
    from gambatools.nfa import NFA
    names = names or ['q%d' % i for i in range(n)]
    syms = syms if syms is not None else SYMS[:k]
    Q = L.GSet(names)
    Sigma = L.GSet(syms)
    delta = L.GDict(default_factory=L.GSet)
    d = E.dag
    for q in names:
        for a in syms + [eps]:
            s = L.GSet()
            for q1 in names:
                s.m[q1] = E.fresh('%st_%s_%s_%s' % (tag, q, a or 'eps', q1))
            pres = TRUE
            if partial:
                # key may be absent only when the target set is empty
                pres = d.or_(E.fresh('%skey_%s_%s' % (tag, q, a or 'eps')), s.nonempty())
            delta.m[(q, a)] = [pres, s]
    F = L.GSet()
    for q in names:
        F.m[q] = E.fresh('%sf_%s' % (tag, q))
    return NFA(Q, Sigma, delta, names[0], F, eps), names, syms


def words_upto(syms, maxlen):
    return [''.join(w) for l in range(maxlen + 1) for w in itertools.product(syms, repeat=l)]


def sym_word(syms, maxlen, tag='w'):
    return choice(words_upto(syms, maxlen), tag)


def sym_positions(syms, B, tag='w'):
    """position-wise symbolic word of length exactly B: list of {symbol: guard}"""
    return [alt_map(choice(syms, '%s%d' % (tag, i))) for i in range(B)]


# ---------------------------------------------------------------------- decoding
def input_vars():
    return [nd[1] for nd in E.dag.nodes[1:] if nd[0] == 'var']


def random_models(rng, R):
    names = input_vars()
    return [{nm: rng.random() < 0.5 for nm in names} for _ in range(R)]


class ModelView:
    """evaluates literals under one of R models (bit-parallel evaluator shared)"""

    def __init__(self, ev, i):
        self.ev = ev
        self.i = i

    def __call__(self, lit):
        return self.ev.lit(lit, self.i)


def single_model(model):
    return ModelView(Evaluator(E.dag, [model]), 0)


def conc(x, mv, native_cls=True):
    """concrete python value of an engine value under a model view"""
    if isinstance(x, L.SB):
        return mv(x.lit)
    if isinstance(x, L.U):
        for g, v in x.alts:
            if mv(g):
                return conc(v, mv, native_cls)
        return L.BOTTOM
    if isinstance(x, (L.GSet, L.FSet)):
        r = set(conc(e, mv, native_cls) for e, p in x.m.items() if mv(p))
        return r if isinstance(x, L.GSet) else frozenset(r)
    if isinstance(x, L.GDict):
        items = {k: conc(v, mv, native_cls) for k, (p, v) in x.m.items() if mv(p)}
        if x.default_factory is not None:
            import collections
            return collections.defaultdict(set, items)
        return items
    if isinstance(x, L.GList):
        if x.alts is None:
            return [conc(v, mv, native_cls) for p, v in x.gseq if mv(p)]
        for g, t in x.alts:
            if mv(g):
                return [conc(v, mv, native_cls) for v in t]
        return L.BOTTOM
    if isinstance(x, L.GStr):
        return conc(x._flat(), mv, native_cls)
    if isinstance(x, tuple):
        return tuple(conc(c, mv, native_cls) for c in x)
    if isinstance(x, frozenset):
        return frozenset(conc(c, mv, native_cls) for c in x)
    mod = type(x).__module__
    if mod.startswith('gambatools.'):
        m = mod.split('.')[1]
        cls = getattr(NATIVE[m], type(x).__name__) if (native_cls and m in NATIVE) else type(x)
        if isinstance(x, str):
            return cls(str(x))
        r = object.__new__(cls)
        for k, v in x.__dict__.items():
            r.__dict__[k] = conc(v, mv, native_cls)
        return r
    return x


def jsonable(x):
    """JSON-able rendering of a concrete value (sets sorted, tuples as lists, objects by fields)"""
    if isinstance(x, (str, int, float, bool, type(None))):
        return x if type(x) in (str, int, float, bool, type(None)) else str(x)
    if isinstance(x, (set, frozenset)):
        return sorted((jsonable(e) for e in x), key=repr)
    if isinstance(x, (list, tuple)):
        return [jsonable(e) for e in x]
    if isinstance(x, dict):
        return sorted(([jsonable(k), jsonable(v)] for k, v in x.items()), key=repr)
    if x is L.BOTTOM:
        return '<bottom>'
    if hasattr(x, '__dict__'):
        return {'__class__': type(x).__name__, **{k: jsonable(v) for k, v in x.__dict__.items()}}
    return repr(x)


# ---------------------------------------------------------------------- job bookkeeping
class Job:
    """collects obligations of one lifted execution and decides them"""

    def __init__(self, name, prop, params=None, seed=0):
        self.name = name
        self.prop = prop
        self.params = params or {}
        self.seed = seed
        self.rng = random.Random((seed, name).__repr__())
        self.t0 = time.time()
        self.lift_s = 0.0
        self.obl = []              # (label, bad_lit, demanded, decode)
        self.witness = []          # (label, lit) that must be satisfiable
        self.result = {'job': name, 'property': prop, 'params': self.params, 'obligations': 0, 'discharged': 0,
                       'inconclusive': [], 'violations': [], 'samples': [], 'differential_models': 0,
                       'vacuity': [], 'notes': [], 'functions': {}, 'known': []}
        self.inputs = {}           # name -> engine value (decoded into samples / counterexamples)
        self.decoders = {}
        self.exclude = []          # literals conjoined (negated) to every query: known-finding regions
        self.expected_errors = lambda kind, msg: False
        self.sample_replays = 0    # >0: differential validation through the native replay functions (see solve)

    # -- setup
    def functions(self, mod, names):
        self.result['functions'].update(src_hash(mod, names))

    def input(self, name, value):
        self.inputs[name] = value
        return value

    def lifted(self):
        """call after the lifted run: records lift time. From here on (oracle, obligations) the AIG is built
        without the encoder's semantic folding, so that every obligation reaches the solver as a real formula"""
        self.lift_s = time.time() - self.t0
        E.dag.sim = None

    def call(self, fn, *args, replay=None, **kwargs):
        """run a lifted library function; an exception that escapes unconditionally (e.g. RecursionError,
        or an assertion that fails on every input) becomes an obligation that is violated by every
        input -- the native replay then decides whether it is real"""
        try:
            return fn(*args, **kwargs)
        except L.LiftError:
            raise
        except (Exception, RecursionError) as e:
            self.oblige('%s returns normally [raised %s: %s]' % (getattr(fn, '__name__', 'call'), type(e).__name__, str(e)[:80]),
                        E.g(), replay=replay)
            self.failed_call = True
            return None

    # -- obligations
    def oblige(self, label, bad, replay=None, demanded=True):
        """bad: literal that is true exactly on violating inputs"""
        self.obl.append((label, bad, demanded, replay))

    def must_reach(self, label, lit):
        self.witness.append((label, lit))

    def failures_as_obligations(self, replay=None, ignore=None):
        """every guarded failure (assert / raise / native exception) recorded by the engine"""
        d = E.dag
        groups = {}
        for lit, kind, msg in E.errors:
            if ignore and ignore(kind, msg):
                continue
            key = '%s: %s' % (kind, msg[:60])
            groups[key] = d.or_(groups.get(key, FALSE), lit)
        for key, lit in groups.items():
            self.oblige('no failure [%s]' % key, lit, replay=replay)
        for lit, where in E.unwind:
            self.oblige('loop terminates within %d iterations [%s]' % (E.while_bound, where), lit,
                        replay=(replay[0], dict(replay[1], hang=True)) if replay else None)

    # -- validation
    def differential(self, R, lifted_view, native_view, what='', replay=None):
        """lifted result evaluated under R random models must equal the native function on the
        concretised input; a mismatch is an encoder bug (harness error) - unless, with a replay recipe given, the SEQUENCE
        of native calls made so far (one process, one call per model) is re-run in a fresh native interpreter and the
        property's native judge sees a violation on one of them: then the native library answers differently after earlier
        calls (hidden state), which is a history-dependent violation and is reported as such by the driver"""
        models = random_models(self.rng, R)
        ev = Evaluator(E.dag, models)
        checked = 0
        self._hist = []
        self._hist_on = replay is not None
        for i in range(R):
            mv = ModelView(ev, i)
            if not all(mv(a) for a in E.assumptions):
                continue
            if replay is not None:
                kind, extra = replay
                self._hist.append({'kind': kind, **{k: (v(mv) if callable(v) else v) for k, v in extra.items()}})
            try:
                exp = native_view(mv)
                nexc = None
            except Exception as e:          # native raised: lifted must record a failure
                exp = None
                nexc = e
            failed = any(mv(lit) for lit, _, _ in E.errors) or any(mv(lit) for lit, _ in E.unwind)
            if nexc is not None:
                if not failed:
                    return self._diff_mismatch('differential %s: native raised %r, lifted did not fail; input %r' %
                                       (what, nexc, self.decode(mv)))
                checked += 1
                continue
            if failed:
                return self._diff_mismatch('differential %s: lifted failed (%s), native returned %r; input %r' %
                                   (what, [(k, m) for l, k, m in E.errors if mv(l)], exp, self.decode(mv)))
            got = lifted_view(mv)
            if exp != got:
                return self._diff_mismatch('differential %s: native %r != lifted %r; input %r' % (what, exp, got, self.decode(mv)))
            checked += 1
        self.result['differential_models'] += checked
        return checked

    def _diff_mismatch(self, msg):
        # deferred: a mismatch is a harness error unless a natively reproduced violation of this job
        # explains it (e.g. a result that depends on the set iteration order, where the native run
        # follows one order and the random model another)
        self.result.setdefault('differential_mismatch', msg[:1500])
        if getattr(self, '_hist_on', False) and 'differential_history' not in self.result:
            self.result['differential_history'] = list(self._hist)
        return 0

    def decode(self, mv):
        out = {}
        for k, v in self.inputs.items():
            dec = self.decoders.get(k)
            out[k] = dec(mv) if dec else jsonable(conc(v, mv, native_cls=False))
        return out

    # -- deciding
    def solve(self, timeout_s=120, nsamples=2):
        d = E.dag
        res = self.result
        base = list(E.assumptions) + [x ^ 1 for x in self.exclude]
        for label, lit in self.witness:
            if E.rand.witness(base + [lit]) is not None:
                r = 'sat'
            else:
                r, m = E.solver.check(base + [lit], want_model=False, timeout_s=timeout_s)
            res['vacuity'].append({'witness': label, 'result': r})
            if r != 'sat':
                raise HarnessError('vacuity witness %r is %s' % (label, r))
        for label, bad, demanded, replay in self.obl:
            res['obligations'] += 1
            wi = E.rand.witness(base + [bad]) if bad != FALSE else None
            if wi is not None:
                r, m = 'sat', E.rand.model(wi)
                res['precheck_sat'] = res.get('precheck_sat', 0) + 1
            else:
                _t = time.time()
                r, m = E.solver.check(base + [bad], timeout_s=timeout_s)
                if os.environ.get('VERIF_DEBUG'):
                    print('  [%s] %s cone=%d %.2fs' % (r, label, len(d.cone(base + [bad])), time.time() - _t), flush=True)
            if r == 'unsat':
                res['discharged'] += 1
            elif r == 'sat':
                mv = single_model(m)
                cex = {'obligation': label, 'input': self.decode(mv), 'demanded': demanded}
                if replay:
                    kind, extra = replay
                    cex['replay'] = {'kind': kind, **{k: (v(mv) if callable(v) else v) for k, v in extra.items()}}
                res['violations'].append(cex)
            else:
                res['inconclusive'].append({'obligation': label, 'reason': str(m)})
        # differential validation through the replay recipes: on random models that violate no obligation of this job the
        # NATIVE replay function (fresh interpreter, unmodified library) must not see a violation either; a disagreement
        # means the encoder lost a behaviour (or the oracle and the replay judge differ) -> harness error, never a verdict
        if self.sample_replays and not res['violations']:
            self._sample_replays(base)
        # samples: decoded random instances of the input space
        if self.inputs and nsamples:
            for m in random_models(self.rng, nsamples):
                res['samples'].append(self.decode(single_model(m)))
        st = E.solver.stats
        res.update({'lift_s': round(self.lift_s, 3), 'solver_s': round(st.solver_s, 3), 'queries': st.queries,
                    'trivial_queries': st.trivial, 'max_query_s': round(st.max_query_s, 3),
                    'aig_nodes': len(d.nodes), 'input_bits': d.nvars, 'wall_s': round(time.time() - self.t0, 3),
                    'loop_feasibility_queries': E.solver_calls, 'prune_queries': E.prune_queries, 'loop_feasibility_by_random_model': E.precheck_hits, 'guarded_failures': len(E.errors),
                    'unwinding_obligations': len(E.unwind),
                    'second_solver': {'queries_rechecked': getattr(st, 'cross_done', 0), 'agree': getattr(st, 'cross_agree', 0),
                                      'no_answer_in_time': getattr(st, 'cross_unknown', 0), 'disagree': getattr(st, 'cross_disagree', 0)}})
        return res


class HarnessError(Exception):
    pass


def _sample_replays(self, base):
    import json, subprocess, tempfile
    recipes = [(label, bad, replay) for label, bad, demanded, replay in self.obl if replay and not replay[1].get('hang')]
    if not recipes:
        return
    seen, chosen = set(), []
    for label, bad, replay in recipes:        # one recipe per replay kind and expectation
        key = (replay[0], str(replay[1].get('expect', '')), str(replay[1].get('what', replay[1].get('op', ''))))
        if key not in seen:
            seen.add(key)
            chosen.append((label, replay))
    models = []
    tries = 0
    while len(models) < self.sample_replays and tries < 200:
        tries += 1
        m = random_models(self.rng, 1)[0]
        mv = single_model(m)
        if all(mv(a) for a in base) and not any(mv(bad) for _, bad, _, _ in self.obl):
            models.append(mv)
    batch = []
    for mv in models:
        for label, (kind, extra) in chosen[:6]:
            batch.append({'label': label, 'replay': {'kind': kind, **{k: (v(mv) if callable(v) else v) for k, v in extra.items()}}})
    if not batch:
        return
    verif = os.path.dirname(os.path.dirname(os.path.abspath(__file__)))
    sd = os.environ.get('VERIF_SCRATCH') or os.path.join(verif, '.scratch')
    os.makedirs(sd, exist_ok=True)
    fd, path = tempfile.mkstemp(suffix='.json', prefix='batch_', dir=sd)
    os.close(fd)
    try:
        json.dump(batch, open(path, 'w'), default=str)
        env = dict(os.environ, PYTHONPATH=verif, PYTHONHASHSEED='0')
        env.pop('GAMBATOOLS_VERIF', None)
        try:
            p = subprocess.run([os.environ.get('VERIF_NATIVE_PY', '/venv/bin/python'), '-m', 'harness.run', '--replay-batch', self.prop, path],
                               cwd=verif, env=env, capture_output=True, text=True, timeout=240)
        except subprocess.TimeoutExpired:
            self.result['notes'].append('replay sampling skipped (native batch timed out)')
            return
        lines = [l for l in p.stdout.split('\n') if l.startswith('BATCH ')]
        if not lines:
            self.result['notes'].append('replay sampling skipped (native batch failed: %s)' % (p.stderr or p.stdout)[-200:])
            return
        outs = json.loads(lines[0][6:])
        for item, (ok, detail) in zip(batch, outs):
            if ok:
                self._diff_mismatch('native replay sees a violation on a sampled input that violates no lifted obligation: %s | %s | %s' %
                                    (item['label'], json.dumps(item['replay'], default=str)[:500], str(detail)[:300]))
                break
        self.result['differential_models'] += len(outs)
        self.result['notes'].append('%d sampled inputs re-judged by the native replay functions' % len(outs))
    finally:
        try:
            os.unlink(path)
        except OSError:
            pass


Job._sample_replays = _sample_replays
