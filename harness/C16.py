"""C16 -- printing an object and parsing the text returns the same object."""
from . import common as c
from . import nat
from .common import E, L, TRUE, FALSE

META = {
    'bounds': {'quick': 'DFA: all DFAs with n <= 3 over {a, b} (and the empty alphabet); NFA: n <= 2 over {a, b} and n = 3 over {a}, '
                        "every triple present or not, epsilon '_' / 'ε' / 'e', sparse and dense relations, states without "
                        'transitions, empty accepting set, several labels per edge; PDA: the C09 families (symbolic transitions '
                        'and accepting set); TM: 1-2 working states, every entry absent or any (target, write, direction), blank '
                        "'_' / '□'; regexps: all trees of depth <= 2 over {a, b} printed in all three concrete syntaxes; simple "
                        'grammars: the C08 families',
               'thorough': 'one notch up'},
    'outside': 'larger objects; the ANTLR-generated regexp parsers are executed natively on every printed alternative (their '
               'internals are not encoded): the solver ranges over which expression was printed',
    'oracle': 'field-by-field comparison of the re-parsed object with the printed one (presence bits of states, symbols, '
              'transitions, accepting / halting states); denotational semantics for the language of a re-parsed expression',
    'assumptions': ['single-character symbols', "state names q0.. / p, q", 'grammars whose variables all have rules (documented)'],
}

EXTRA_NATIVE = ('regexp_parser', 'regexp_simple_parser')


def view_diff(v1, v2, kind):
    """literal: the two views differ (states, alphabet, initial, accepting, transitions)"""
    d = E.dag
    bad = []
    for q in set(v1.names) | set(v2.names):
        bad.append(d.iff(v1.qpres.get(q, FALSE), v2.qpres.get(q, FALSE)) ^ 1)
        bad.append(d.iff(v1.F.get(q, FALSE), v2.F.get(q, FALSE)) ^ 1)
        bad.append(d.iff(v1.q0.get(q, FALSE), v2.q0.get(q, FALSE)) ^ 1)
    for a in set(v1.syms) | set(v2.syms):
        bad.append(d.iff(v1.spres.get(a, FALSE), v2.spres.get(a, FALSE)) ^ 1)
    if kind == 'dfa':
        for key in set(v1.dl) | set(v2.dl):
            for t in set(v1.dl.get(key, {})) | set(v2.dl.get(key, {})):
                bad.append(d.iff(v1.dl.get(key, {}).get(t, FALSE), v2.dl.get(key, {}).get(t, FALSE)) ^ 1)
    else:
        for key in set(v1.T) | set(v2.T):
            bad.append(d.iff(v1.T.get(key, FALSE), v2.T.get(key, FALSE)) ^ 1)
        for e in set(v1.eps) | set(v2.eps):
            bad.append(d.iff(v1.eps.get(e, FALSE), v2.eps.get(e, FALSE)) ^ 1)
    return d.any_(bad)


def job_dfa(job, n, k):
    from gambatools.dfa_algorithms import print_dfa, parse_dfa
    from .oracles import DfaView
    job.functions('dfa_algorithms', ['print_dfa', 'parse_dfa', 'DFABuilder'])
    job.functions('automaton_algorithms', ['AutomatonParser', 'AutomatonBuilder'])
    Dm, names, syms = c.sym_dfa(n, k)
    view = DfaView(Dm, names, syms)
    job.inputs['D'] = Dm
    job.decoders['D'] = view.to_json
    rp = ('dfa', {'D': view.to_json})
    text = job.call(print_dfa, Dm, replay=rp)
    D2 = job.call(parse_dfa, text, replay=rp) if text is not None else None
    job.lifted()
    if D2 is not None:
        job.oblige('parse_dfa(print_dfa(D)) has the same states, alphabet, transitions, initial and accepting states',
                   view_diff(view, DfaView(D2, None, None, prune=False), 'dfa'), replay=rp)
    job.failures_as_obligations(replay=rp)
    job.sample_replays = 3
    return job.solve()


def job_nfa(job, n, k, eps, partial):
    from gambatools.nfa_algorithms import print_nfa, parse_nfa
    from .oracles import NfaView
    job.functions('nfa_algorithms', ['print_nfa', 'parse_nfa', 'NFABuilder'])
    N, names, syms = c.sym_nfa(n, k, eps=eps, partial=partial)
    view = NfaView(N, names, syms)
    job.inputs['N'] = N
    job.decoders['N'] = view.to_json
    rp = ('nfa', {'N': view.to_json})
    text = job.call(print_nfa, N, replay=rp)
    N2 = job.call(parse_nfa, text, replay=rp) if text is not None else None
    job.lifted()
    if N2 is not None:
        job.oblige('parse_nfa(print_nfa(N)) has the same states, alphabet, transitions, epsilon, initial and accepting states',
                   view_diff(view, NfaView(N2, None, None), 'nfa'), replay=rp)
    job.failures_as_obligations(replay=rp)
    job.sample_replays = 3
    return job.solve()


def job_pda(job, fam, eps='_', seed=0, nsym=7):
    from gambatools.pda_algorithms import print_pda, parse_pda
    from .pda_sym import sym_pda, pda_json, read_pda
    from .C09 import family, STATES
    job.functions('pda_algorithms', ['print_pda', 'parse_pda', 'PDABuilder'])
    d = E.dag
    gamma, fixed, sym = family(fam, eps, seed, nsym)
    P, trans, fbits = sym_pda(STATES, ['a'], gamma, eps, fixed, sym)
    dec = pda_json(STATES, ['a'], gamma, eps, trans, fbits, 'p')
    job.inputs['P'] = P
    job.decoders['P'] = dec
    rp = ('pda', {'P': dec})
    text = job.call(print_pda, P, replay=rp)
    P2 = job.call(parse_pda, text, replay=rp) if text is not None else None
    job.lifted()
    if P2 is not None:
        Q2, t2, F2, q02, Gam2, eps2 = read_pda(P2)
        before = {t: lit for lit, t in trans}
        after = {}
        for lit, t in t2:
            after[t] = d.or_(after.get(t, FALSE), lit)
        bad = [d.iff(before.get(t, FALSE), after.get(t, FALSE)) ^ 1 for t in set(before) | set(after)]
        bad += [d.iff(fbits.get(s, FALSE), F2.get(s, FALSE)) ^ 1 for s in set(fbits) | set(F2)]
        bad += [d.iff(TRUE if s in STATES else FALSE, Q2.get(s, FALSE)) ^ 1 for s in set(STATES) | set(Q2)]
        bad += [d.iff(TRUE if s in gamma else FALSE, Gam2.get(s, FALSE)) ^ 1 for s in set(gamma) | set(Gam2)]
        bad += [d.iff(TRUE if s == 'p' else FALSE, g) ^ 1 for s, g in q02.items()]
        bad.append(TRUE if eps2 != eps else FALSE)
        Sig2 = {str(k_): g for k_, g in L._setview(P2.Sigma).m.items()}
        bad += [d.iff(TRUE if s == 'a' else FALSE, g) ^ 1 for s, g in Sig2.items()] + [Sig2.get('a', FALSE) ^ 1]
        job.oblige('parse_pda(print_pda(P)) is the same automaton', d.any_(bad), replay=rp)
    job.failures_as_obligations(replay=rp)
    job.sample_replays = 3
    return job.solve()


def job_tm(job, nwork, gamma_in, blank, tstep=1):
    from gambatools.tm_algorithms import print_tm, parse_tm
    from .C11 import sym_tm, tm_json
    from .oracles import dict_items
    job.functions('tm_algorithms', ['print_tm', 'parse_tm', 'TMBuilder'])
    d = E.dag
    gamma_in = list(gamma_in)
    T, states, gamma, entries = sym_tm(nwork, gamma_in, blank, 's0', tstep)
    dec = lambda mv: tm_json(states, gamma_in, gamma, blank, 's0', entries, mv)
    job.inputs['T'] = T
    job.decoders['T'] = dec
    rp = ('tm', {'T': dec})
    text = job.call(print_tm, T, replay=rp)
    T2 = job.call(parse_tm, text, replay=rp) if text is not None else None
    job.lifted()
    if T2 is not None:
        bad = []
        after = {}
        for key, (pres, val) in dict_items(T2.delta).items():
            for g, tgt in E.inst(val):        # deep instantiation: (q, U, U) -> concrete triples
                if isinstance(tgt, tuple):
                    after[(tuple(map(str, key)), tuple(map(str, tgt)))] = d.and_(pres, g)
        before = {((p, a), t): g for (p, a), alts in entries.items() for t, g in alts.items()}
        bad += [d.iff(before.get(k_, FALSE), after.get(k_, FALSE)) ^ 1 for k_ in set(before) | set(after)]
        for name, exp in (('Q', states), ('Sigma', gamma_in), ('Gamma', gamma)):
            m = {str(k_): g for k_, g in L._setview(getattr(T2, name)).m.items()}
            bad += [d.iff(TRUE if s in exp else FALSE, m.get(s, FALSE)) ^ 1 for s in set(exp) | set(m)]
        for name, exp in (('q0', 's0'), ('q_accept', 'qa'), ('q_reject', 'qr'), ('blank', blank)):
            bad += [d.and_(g, TRUE if str(v) != exp else FALSE) for g, v in E.alts(getattr(T2, name))]
        job.oblige('parse_tm(print_tm(T)) is the same machine', d.any_(bad), replay=rp)
    job.failures_as_obligations(replay=rp)
    job.sample_replays = 3
    return job.solve()


def job_regexp(job, depth, maxlen, syms='ab', shape=None):
    import gambatools.regexp as R
    from .regexp_sym import skeleton, shaped, Sem, regexp_json
    from .C05 import _tup
    job.functions('regexp', ['print_regexp', 'print_regexp_simple', 'print_binary_operation', 'print_unary_right_operation', 'precedence'])
    job.functions('regexp_parser', ['parse_regexp'])
    job.functions('regexp_simple_parser', ['parse_simple_regexp'])
    d = E.dag
    syms = list(syms)
    r = shaped(_tup(shape), syms) if shape is not None else skeleton(depth, syms)
    dec = lambda mv: regexp_json(r, mv)
    job.inputs['r'] = r
    job.decoders['r'] = dec
    rp = ('regexp', {'r': dec, 'maxlen': maxlen, 'syms': syms})
    texts = {'str': job.call(L.OVERRIDES[str], r, replay=rp), 'print_regexp': job.call(R.print_regexp, r, replay=rp),
             'print_regexp_simple': job.call(R.print_regexp_simple, r, replay=rp)}
    pr, ps = c.native('regexp_parser').parse_regexp, c.native('regexp_simple_parser').parse_simple_regexp
    parsed = {}
    for nm, t in texts.items():
        if t is None:
            continue
        parser = ps if nm == 'print_regexp_simple' else pr
        parsed[nm] = E.lift(parser, [t])
    job.lifted()
    sem = Sem()
    words = c.words_upto(syms, maxlen)
    for nm, x in parsed.items():
        for w in words:
            job.oblige('%s: the re-parsed expression denotes %r iff the printed one does' % (nm, w), d.iff(sem.member(x, w), sem.member(r, w)) ^ 1, replay=rp)
        # same printed form
        printer = {'str': str, 'print_regexp': c.native('regexp').print_regexp, 'print_regexp_simple': c.native('regexp').print_regexp_simple}[nm]
        again = E.lift(printer, [x])
        job.oblige('%s: printing the re-parsed expression gives the same text' % nm, L.EQ(again, texts[nm]) ^ 1, replay=rp)
    job.failures_as_obligations(replay=rp)
    job.sample_replays = 3
    return job.solve()


def job_cfg(job, family, nsym=6, eps=None):
    from gambatools.cfg_algorithms import cfg_print_simple, parse_simple_cfg
    from .cfg_sym import sym_cfg, entries_json, read_cfg
    from .C08 import FAMILIES
    job.functions('cfg_algorithms', ['cfg_print_simple', 'parse_simple_cfg', 'cfg_is_simple', 'SimpleCFGParser'])
    d = E.dag
    terminals = ['a', 'b']
    variables, fixed, symbolic = FAMILIES[family]
    symbolic = symbolic[:nsym]
    cands = [(X, tuple(r)) for X, r in fixed] + [(X, tuple(r)) for X, r in symbolic]
    G, entries = sym_cfg(variables, terminals, cands, variables[0], fixed=[(X, tuple(r)) for X, r in fixed])
    dec = entries_json(entries, variables, terminals, variables[0])
    if eps is not None:
        # a grammar object with its own epsilon symbol (as read from a text with `epsilon = e`, or passed to the constructor)
        import gambatools.cfg as C
        G.epsilon = C.Terminal(eps)
    job.inputs['G'] = G
    job.decoders['G'] = dec
    rp = ('cfg', {'G': dec, 'eps': eps})
    # documented precondition: every variable has a rule, the start variable's rule comes first, every terminal occurs
    has_rule = {v: d.any_(bit for bit, X, rhs in entries if X == v) for v in variables}
    uses = {t: d.any_(bit for bit, X, rhs in entries if t in rhs) for t in terminals}
    first_is_start = TRUE
    seen = FALSE
    for bit, X, rhs in entries:
        if X != variables[0]:
            first_is_start = d.and_(first_is_start, d.or_(bit ^ 1, seen))
        else:
            seen = d.or_(seen, bit)
    E.assumptions.append(d.all_(list(has_rule.values()) + list(uses.values()) + [first_is_start]))
    text = job.call(cfg_print_simple, G, replay=rp)
    G2 = job.call(parse_simple_cfg, text, replay=rp) if text is not None else None
    job.lifted()
    if G2 is not None:
        before = {}
        for bit, X, rhs in entries:
            before[(X, rhs)] = d.or_(before.get((X, rhs), FALSE), bit)
        after = {}
        for lit, X, rhs, kinds in read_cfg(G2):
            after[(X, rhs)] = d.or_(after.get((X, rhs), FALSE), lit)
        bad = [d.iff(before.get(k_, FALSE), after.get(k_, FALSE)) ^ 1 for k_ in set(before) | set(after)]
        bad += [d.and_(g, TRUE if str(v) != variables[0] else FALSE) for g, v in E.alts(G2.S)]
        m = {str(k_): g for k_, g in L._setview(G2.V).m.items()}
        bad += [d.iff(TRUE if s in variables else FALSE, m.get(s, FALSE)) ^ 1 for s in set(variables) | set(m)]
        job.oblige('parse_simple_cfg(cfg_print_simple(G)) has the same rules, variables and start variable', d.any_(bad), replay=rp)
        job.oblige('parse_simple_cfg(cfg_print_simple(G)) == G (the library\'s own equality)', E.lit(L.CMP('Eq', G2, G)) ^ 1, replay=rp)
    job.failures_as_obligations(replay=rp)
    job.must_reach('precondition satisfiable', TRUE)
    job.sample_replays = 3
    return job.solve()


def jobs(tier):
    J = []

    def add(name, fn, timeout=None, **params):
        J.append({'name': name, 'fn': fn, 'params': params, **({'timeout': timeout} if timeout else {})})
    q = tier == 'quick'
    tmo = 900 if q else 3000
    add('dfa_n3_k2', job_dfa, n=3 if q else 4, k=2, timeout=tmo)
    add('dfa_n2_k0', job_dfa, n=2, k=0)
    add('dfa_n1_k1', job_dfa, n=1, k=1)
    add('nfa_n2_k2_us', job_nfa, n=2, k=2, eps='_', partial=True, timeout=tmo)
    add('nfa_n3_k1_unicode', job_nfa, n=3, k=1, eps='ε', partial=True, timeout=tmo)
    add('nfa_n2_k1_dense_e', job_nfa, n=2, k=1, eps='e', partial=False, timeout=tmo)
    add('nfa_n2_k0', job_nfa, n=2, k=0, eps='_', partial=True, timeout=tmo)
    for fam in ('grow_cycle', 'replace_and_pop', 'two_stack_symbols', 'replace_only'):
        add('pda_%s' % fam, job_pda, fam=fam, timeout=tmo)
    add('pda_percent_stack', job_pda, fam='percent_stack', timeout=tmo)
    add('pda_random_unicode', job_pda, fam='random', seed=3, eps='ε', timeout=tmo)
    add('tm_w1_g1', job_tm, nwork=1, gamma_in='a', blank='_', timeout=tmo)
    add('tm_w1_percent', job_tm, nwork=1, gamma_in='%', blank='_', timeout=tmo)
    add('tm_w2_g1_box', job_tm, nwork=2, gamma_in='a', blank='□', timeout=tmo)
    # (a TM over two input symbols - three table entries - lifts in 13 minutes and its two solver queries then time out: not registered)
    # regular expressions: operator shape fixed per job (cube splitting), leaves symbolic over {0, 1, a, b}:
    # together every tree of depth <= 2 (thorough: depth <= 3 with at most 4 leaves)
    from .C06 import _shapes, _shape_name, _depth
    for s, nl in _shapes(2 if q else 3, 4):
        add('regexp_%s' % _shape_name(s), job_regexp, depth=_depth(s), maxlen=3, shape=s, timeout=tmo)
    for fam in ('eps_unit', 'three_vars', 'shared_rhs', 'repeated_nullable', 'long', 'indirect_nullable', 'useless_cyclic', 'length5'):
        add('cfg_%s' % fam, job_cfg, family=fam, nsym=9, timeout=tmo)
    add('cfg_eps_unit_own_epsilon', job_cfg, family='eps_unit', nsym=9, eps='e', timeout=tmo)
    add('cfg_three_vars_own_epsilon', job_cfg, family='three_vars', nsym=9, eps='x', timeout=tmo)
    return J


# ------------------------------------------------------------------ native replay
def _replay_dfa(rp):
    from gambatools.dfa_algorithms import print_dfa, parse_dfa
    D = nat.mk_dfa(rp['D'])
    try:
        D2 = parse_dfa(print_dfa(D))
    except Exception as e:
        return True, {'raised': repr(e)}
    return nat.dfa_json_of(D2) != nat.dfa_json_of(D), {'printed': print_dfa(D), 'reparsed': nat.dfa_json_of(D2)}


def _nfa_norm(N):
    j = nat.nfa_json_of(N)
    j['delta'] = [x for x in j['delta'] if x[2]]
    j.pop('defaultdict')
    return j


def _replay_nfa(rp):
    from gambatools.nfa_algorithms import print_nfa, parse_nfa
    N = nat.mk_nfa(rp['N'])
    try:
        N2 = parse_nfa(print_nfa(N))
    except Exception as e:
        return True, {'raised': repr(e)}
    return _nfa_norm(N2) != _nfa_norm(N), {'printed': print_nfa(N), 'reparsed': _nfa_norm(N2)}


def _replay_pda(rp):
    from gambatools.pda_algorithms import print_pda, parse_pda
    P = nat.mk_pda(rp['P'])
    try:
        P2 = parse_pda(print_pda(P))
    except Exception as e:
        return True, {'raised': repr(e)}
    return nat.pda_json_of(P2) != nat.pda_json_of(P), {'printed': print_pda(P), 'reparsed': nat.pda_json_of(P2)}


def _tm_norm(T):
    return {'Q': sorted(T.Q), 'Sigma': sorted(T.Sigma), 'Gamma': sorted(T.Gamma), 'delta': sorted([p, a, *v] for (p, a), v in T.delta.items()),
            'q0': T.q0, 'qa': T.q_accept, 'qr': T.q_reject, 'blank': T.blank}


def _replay_tm(rp):
    from gambatools.tm_algorithms import print_tm, parse_tm
    T = nat.mk_tm(rp['T'])
    try:
        T2 = parse_tm(print_tm(T))
    except Exception as e:
        return True, {'raised': repr(e)}
    return _tm_norm(T2) != _tm_norm(T), {'printed': print_tm(T), 'reparsed': _tm_norm(T2)}


def _replay_regexp(rp):
    import gambatools.regexp as R
    from gambatools.regexp_parser import parse_regexp
    from gambatools.regexp_simple_parser import parse_simple_regexp
    r = nat.mk_regexp(rp['r'])
    n = rp['maxlen']
    exp = nat.ref_regexp_lang(rp['r'], n)
    bad = {}
    for nm, pr, ps in (('str', str, parse_regexp), ('print_regexp', R.print_regexp, parse_regexp), ('print_regexp_simple', R.print_regexp_simple, parse_simple_regexp)):
        try:
            t = pr(r)
            x = ps(t)
            if nat.ref_regexp_lang(nat.regexp_json_of(x), n) != exp:
                bad[nm] = {'text': t, 'reparsed': str(x), 'problem': 'language differs'}
            elif pr(x) != t:
                bad[nm] = {'text': t, 'printed again': pr(x)}
        except Exception as e:
            bad[nm] = repr(e)
    return bool(bad), bad


def _replay_cfg(rp):
    from gambatools.cfg_algorithms import cfg_print_simple, parse_simple_cfg
    G = nat.mk_cfg(rp['G'])
    if rp.get('eps'):
        import gambatools.cfg as C
        G.epsilon = C.Terminal(rp['eps'])
    try:
        t = cfg_print_simple(G)
        G2 = parse_simple_cfg(t)
    except Exception as e:
        return True, {'raised': repr(e)}
    j1, j2 = nat.cfg_json_of(G), nat.cfg_json_of(G2)
    same = sorted(map(tuple, [(x, tuple(r)) for x, r in j1['R']])) == sorted(map(tuple, [(x, tuple(r)) for x, r in j2['R']])) and j1['S'] == j2['S'] and j1['V'] == j2['V']
    return (not same) or not (G2 == G), {'printed': t, 'reparsed': str(G2), 'library ==': G2 == G}


REPLAY = {'dfa': _replay_dfa, 'nfa': _replay_nfa, 'pda': _replay_pda, 'tm': _replay_tm, 'regexp': _replay_regexp, 'cfg': _replay_cfg}
