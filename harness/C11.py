"""C11 -- TM simulation follows Sipser semantics with a three-valued bounded verdict."""
import itertools

from . import common as c
from . import nat
from .common import E, L, TRUE, FALSE

META = {
    'bounds': {
        'quick': 'all deterministic TMs with 2 working states + accept + reject, tape alphabet {a, blank} and {a, b, blank}, '
                 'every (state, symbol) entry absent or any (target, write, direction); initial state s0 and, separately, '
                 'the accepting / rejecting state; words of length <= 2; step budgets 0..5',
        'thorough': '3 working states with tape alphabet {a, blank}, 2 working states with {a, b, c?, blank}; words <= 3; budgets 0..8',
    },
    'outside': 'more states / tape symbols, longer words, budgets beyond the bound (covered only through the step-by-step '
               'trace obligations, which are inductive in the step count up to the bound)',
    'oracle': 'independent one-hot configuration semantics (state, tape cells, tape length, head) stepped directly over the '
              'transition bits: default-to-reject on a missing entry, clamp at the left end, blank extension on the right',
    'assumptions': ['the machine satisfies TM._check_validity (asserted, discharged)', 'state and symbol names fixed by symmetry'],
}


class RefTM:
    """one-hot reference simulation over literals"""

    def __init__(self, states, gamma, blank, q0, qa, qr, entries, word, K):
        d = E.dag
        self.d = d
        self.states, self.gamma, self.blank, self.qa, self.qr = states, gamma, blank, qa, qr
        self.entries = entries            # (p, a) -> {(q, b, dir): lit}  (absent entry: all FALSE)
        N = max(len(word), 1) + K + 1
        S = {q: (TRUE if q == q0 else FALSE) for q in states}
        T = [{s: (TRUE if (i < len(word) and word[i] == s) or (i >= len(word) and s == blank) else FALSE) for s in gamma} for i in range(N)]
        H = {i: (TRUE if i == 0 else FALSE) for i in range(N)}
        Ln = {n: (TRUE if n == max(len(word), 1) else FALSE) for n in range(1, N + 1)}
        self.confs = [(S, T, H, Ln)]
        self.N = N
        for _ in range(K):
            self.confs.append(self.step(*self.confs[-1]))

    def halted(self, S):
        return self.d.or_(S[self.qa], S[self.qr])

    def step(self, S, T, H, Ln):
        d = self.d
        N = self.N
        halt = self.halted(S)
        run = halt ^ 1
        # symbol under the head
        read = {s: d.any_(d.and_(H[i], T[i][s]) for i in range(N)) for s in self.gamma}
        # chosen action: (q, b, dir) literals
        act = {}
        anyentry = FALSE
        for (p, a), alts in self.entries.items():
            cond = d.and_(S[p], read[a])
            for (q, b, dr), g in alts.items():
                lit = d.and_(cond, g)
                act[(q, b, dr)] = d.or_(act.get((q, b, dr), FALSE), lit)
                anyentry = d.or_(anyentry, lit)
        missing = d.and_(run, anyentry ^ 1)
        for a in self.gamma:                  # default: go to reject, keep the symbol, move right
            key = (self.qr, a, 'R')
            act[key] = d.or_(act.get(key, FALSE), d.and_(missing, read[a]))
        nq = {q: d.any_(g for (q1, b, dr), g in act.items() if q1 == q) for q in self.states}
        wb = {b: d.any_(g for (q1, b1, dr), g in act.items() if b1 == b) for b in self.gamma}
        left = d.any_(g for (q1, b1, dr), g in act.items() if dr == 'L')
        right = d.any_(g for (q1, b1, dr), g in act.items() if dr == 'R')
        S1 = {q: d.or_(d.and_(halt, S[q]), d.and_(run, nq[q])) for q in self.states}
        T1 = []
        for i in range(N):
            here = d.and_(run, H[i])
            T1.append({s: d.or_(d.and_(here, wb[s]), d.and_(here ^ 1, T[i][s])) for s in self.gamma})
        H1 = {}
        for i in range(N):
            mv_l = d.and_(left, d.or_(H[i + 1] if i + 1 < N else FALSE, H[0] if i == 0 else FALSE))
            mv_r = d.and_(right, H[i - 1] if i > 0 else FALSE)
            H1[i] = d.or_(d.and_(halt, H[i]), d.and_(run, d.or_(mv_l, mv_r)))
        # tape grows when the new head position equals the old length
        grow = d.and_(run, d.any_(d.and_(H1[n], Ln[n]) for n in Ln if n < N))
        Ln1 = {n: d.or_(d.and_(grow ^ 1, Ln[n]), d.and_(grow, Ln.get(n - 1, FALSE))) for n in Ln}
        return (S1, T1, H1, Ln1)

    def verdicts(self, k):
        """(accepted within k steps, rejected within k steps)"""
        S = self.confs[k][0]
        return S[self.qa], S[self.qr]

    def steps_done(self, k):
        """{n: lit}: number of configurations after the initial one in a run with budget k"""
        d = self.d
        out = {}
        for n in range(k + 1):
            # exactly n steps: not halted before n, and (halted at n or n == k)
            nh = d.all_(self.halted(self.confs[i][0]) ^ 1 for i in range(n))
            stop = TRUE if n == k else self.halted(self.confs[n][0])
            out[n] = d.and_(nh, stop)
        return out

    def conf_value(self, i):
        """engine value of configuration i as the library represents it: (state, tape list, head)"""
        S, T, H, Ln = self.confs[i]
        st = E.mk([(g, q) for q, g in S.items()])
        hd = E.mk([(g, p) for p, g in H.items()])
        cells = [E.mk([(g, s) for s, g in T[j].items()]) for j in range(self.N)]
        tape = L.GList._from([(g, tuple(cells[:n])) for n, g in Ln.items() if g != FALSE])
        return (st, tape, hd)


def sym_tm(nwork, gamma_in, blank, q0, tstep=1):
    from gambatools.tm import TM
    work = ['s%d' % i for i in range(nwork)]
    states = work + ['qa', 'qr']
    gamma = list(gamma_in) + [blank]
    delta = L.GDict()
    entries = {}
    targets = [(q, b, dr) for q in states for b in gamma for dr in 'LR']
    if tstep > 1:
        # a sub-family: every tstep-th target, rotated per entry so that all targets occur somewhere
        pass
    for p in work:
        for a in gamma:
            pres = E.fresh('e_%s_%s' % (p, a))
            tg = targets if tstep == 1 else [t for i, t in enumerate(targets) if (i + len(entries)) % tstep == 0]
            val = c.choice(tg, 't_%s_%s' % (p, a))
            delta.m[(p, a)] = [pres, val]
            entries[(p, a)] = {t: E.dag.and_(pres, g) for t, g in c.alt_map(val).items()}
    T = TM(L.GSet(states), L.GSet(list(gamma_in)), L.GSet(gamma), delta, q0, 'qa', 'qr', blank)
    return T, states, gamma, entries


def tm_json(states, gamma_in, gamma, blank, q0, entries, mv):
    delta = []
    for (p, a), alts in entries.items():
        for (q, b, dr), g in alts.items():
            if mv(g):
                delta.append([p, a, q, b, dr])
    return {'Q': states, 'Sigma': list(gamma_in), 'Gamma': gamma, 'delta': delta, 'q0': q0, 'q_accept': 'qa', 'q_reject': 'qr', 'blank': blank}


def job_tm(job, nwork, gamma_in, maxlen, K, q0='s0', blank='_'):
    from gambatools.tm_algorithms import tm_accepts_word, tm_simulate_word
    job.functions('tm_algorithms', ['tm_do_transition', 'tm_accepts_word', 'tm_simulate_word'])
    job.functions('tm', ['TM'])
    gamma_in = list(gamma_in)
    T, states, gamma, entries = sym_tm(nwork, gamma_in, blank, q0)
    dec = lambda mv: tm_json(states, gamma_in, gamma, blank, q0, entries, mv)
    job.inputs['T'] = T
    job.decoders['T'] = dec
    d = E.dag
    words = c.words_upto(gamma_in, maxlen)
    ver = {}
    trace = {}
    for w in words:
        for k in range(K + 1):
            ver[w, k] = tm_accepts_word(T, w, k)
        for k in sorted({0, 1, K}):
            trace[w, k] = tm_simulate_word(T, w, k)
    # call history: the same machine object asked again with decreasing budgets after the runs above (a verdict remembered
    # from a longer run must not leak into a shorter budget)
    again = {}
    for w in words:
        for k in range(K, -1, -1):
            again[w, k] = tm_accepts_word(T, w, k)
    job.lifted()
    nt = c.native('tm_algorithms')

    def nat_view(mv):
        Tn = nat.mk_tm(dec(mv), c.native('tm'))
        return ({(w, k): nt.tm_accepts_word(Tn, w, k) for (w, k) in ver},
                {(w, k): [(q, list(t), h) for q, t, h in nt.tm_simulate_word(Tn, w, k)] for (w, k) in trace})
    job.differential(30, lambda mv: ({wk: c.conc(v, mv) for wk, v in ver.items()},
                                     {wk: [(q, list(t), h) for q, t, h in c.conc(v, mv)] for wk, v in trace.items()}), nat_view, 'tm', replay=('tm', {'T': dec, 'word': words[-1], 'K': K}))
    for w in words:
        ref = RefTM(states, gamma, blank, q0, 'qa', 'qr', entries, w, K)
        for k in range(K + 1):
            acc, rej = ref.verdicts(k)
            got = {v: g for g, v in E.alts(ver[w, k])}
            bad = d.any_([d.iff(got.get(True, FALSE), acc) ^ 1, d.iff(got.get(False, FALSE), rej) ^ 1,
                          d.iff(got.get(None, FALSE), d.or_(acc, rej) ^ 1) ^ 1])
            job.oblige('tm_accepts_word(T, %r, %d) is the three-valued verdict' % (w, k), bad,
                       replay=('tm', {'T': dec, 'word': w, 'K': K}))
        for k in range(K + 1):
            acc, rej = ref.verdicts(k)
            got = {v: g for g, v in E.alts(again[w, k])}
            bad = d.any_([d.iff(got.get(True, FALSE), acc) ^ 1, d.iff(got.get(False, FALSE), rej) ^ 1,
                          d.iff(got.get(None, FALSE), d.or_(acc, rej) ^ 1) ^ 1])
            job.oblige('after runs with larger budgets: tm_accepts_word(T, %r, %d) is the three-valued verdict' % (w, k), bad,
                       replay=('tm', {'T': dec, 'word': w, 'K': K}))
        for k in sorted({0, 1, K}):
            steps = ref.steps_done(k)
            tr = trace[w, k]
            # reference trace as an engine value: alternatives by number of steps
            ref_tr = L.GList._from([(g, tuple(ref.conf_value(i) for i in range(n + 1))) for n, g in steps.items() if g != FALSE])
            job.oblige('tm_simulate_word(T, %r, %d) is the step-by-step run' % (w, k), L.EQ(tr, ref_tr) ^ 1,
                       replay=('tm', {'T': dec, 'word': w, 'K': K}))
    job.failures_as_obligations(replay=('tm', {'T': dec, 'word': words[-1], 'K': K}))
    if q0 == 's0' and nwork >= 2:
        w = words[-1]
        ref = RefTM(states, gamma, blank, q0, 'qa', 'qr', entries, w, K)
        job.must_reach('some machine accepts %r only at the last step' % w, d.and_(ref.verdicts(K)[0], ref.verdicts(K - 1)[0] ^ 1))
        job.must_reach('some machine moves left at the left end', d.any_(g for (p, a), alts in entries.items() if p == 's0'
                                                                       for (q, b, dr), g in alts.items() if dr == 'L'))
    return job.solve()


def jobs(tier):
    J = []

    def add(name, timeout=None, **params):
        J.append({'name': name, 'fn': job_tm, 'params': params, **({'timeout': timeout} if timeout else {})})
    if tier == 'quick':
        add('tm_w2_g1', nwork=2, gamma_in='a', maxlen=2, K=5)
        add('tm_w1_g2', nwork=1, gamma_in='ab', maxlen=2, K=4)
        add('tm_w2_g2', nwork=2, gamma_in='ab', maxlen=1, K=3)
        add('tm_start_accept', nwork=1, gamma_in='a', maxlen=1, K=2, q0='qa')
        add('tm_start_reject', nwork=1, gamma_in='a', maxlen=1, K=2, q0='qr')
        add('tm_blank_box', nwork=1, gamma_in='a', maxlen=1, K=3, blank='□')
    else:
        # (3 working states with K = 8, 2 working states over two symbols with K = 6 and one state over three symbols with K = 6
        # ran for more than 17 CPU-minutes each without finishing: the bounds below are the ones that complete)
        add('tm_w3_g1', nwork=3, gamma_in='a', maxlen=2, K=5, timeout=1500)
        add('tm_w2_g2', nwork=2, gamma_in='ab', maxlen=1, K=3, timeout=1500)
        add('tm_w1_g2', nwork=1, gamma_in='ab', maxlen=2, K=4, timeout=1500)
        add('tm_w2_g1_K7', nwork=2, gamma_in='a', maxlen=3, K=7, timeout=1500)
        add('tm_start_accept', nwork=2, gamma_in='ab', maxlen=2, K=3, q0='qa')
        add('tm_start_reject', nwork=2, gamma_in='ab', maxlen=2, K=3, q0='qr')
        add('tm_blank_box', nwork=2, gamma_in='a', maxlen=2, K=5, blank='□')
    return J


def _replay_tm(rp):
    from gambatools.tm_algorithms import tm_accepts_word, tm_simulate_word
    T = nat.mk_tm(rp['T'])
    bad = []
    words = nat.words_upto(rp['T']['Sigma'], max(len(rp['word']), 1))
    for w in words:
        prev = None
        for k in range(rp['K'] + 2):
            exp_v, exp_t = nat.ref_tm_run(rp['T'], w, k)
            try:
                got_v = tm_accepts_word(T, w, k)
                got_t = [(q, list(t), h) for q, t, h in tm_simulate_word(T, w, k)]
            except Exception as e:
                bad.append({'word': w, 'k': k, 'raised': repr(e)})
                continue
            if got_v is not exp_v:
                bad.append({'word': w, 'k': k, 'verdict': got_v, 'expected': exp_v})
            if got_t != exp_t:
                bad.append({'word': w, 'k': k, 'trace': got_t, 'expected_trace': exp_t})
            if prev is not None and got_v is not prev:
                bad.append({'word': w, 'k': k, 'verdict changed from': prev, 'to': got_v})
            prev = got_v if got_v is not None else prev
        for k in range(rp['K'] + 1, -1, -1):        # the same object again, budgets decreasing
            exp_v, _ = nat.ref_tm_run(rp['T'], w, k)
            try:
                got_v = tm_accepts_word(T, w, k)
            except Exception as e:
                bad.append({'word': w, 'k': k, 'second pass raised': repr(e)})
                continue
            if got_v is not exp_v:
                bad.append({'word': w, 'k': k, 'verdict after runs with larger budgets': got_v, 'expected': exp_v})
    return bool(bad), {'mismatches': bad[:3]}


REPLAY = {'tm': _replay_tm}
