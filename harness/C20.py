"""C20 -- the DFA isomorphism test decides isomorphism of the reachable parts."""
from . import common as c
from . import nat
from .common import E, L, TRUE, FALSE

META = {
    'bounds': {'quick': 'all pairs of DFAs with n1, n2 <= 2 states over |Sigma| <= 2 and 3x2 / 2x3 over |Sigma| = 1, '
                        'every order in which pairs are taken from the work set (set_element), every for-order over Sigma',
               'thorough': 'all pairs up to 3 x 3 states, |Sigma| <= 2'},
    'outside': 'larger automata; different alphabets (excluded by the documented assert)',
    'oracle': 'least relation containing (q0, q0\') closed under joint successors (fixpoint over n1*n2 bits); isomorphic iff the '
              'relation is functional in both directions and preserves acceptance',
    'assumptions': ['both DFAs valid (constructor asserts, discharged) and over the same alphabet'],
}


def pair_oracle(v1, v2):
    d = E.dag
    n1, n2 = v1.names, v2.names
    R = {(p, q): d.and_(v1.q0.get(p, FALSE), v2.q0.get(q, FALSE)) for p in n1 for q in n2}
    for _ in range(len(n1) * len(n2)):
        new = {}
        for p1 in n1:
            for q1 in n2:
                terms = [R[p1, q1]]
                for a in v1.syms:
                    for p in n1:
                        g1 = v1.dl.get((p, a), {}).get(p1, FALSE)
                        if g1 == FALSE:
                            continue
                        for q in n2:
                            g2 = v2.dl.get((q, a), {}).get(q1, FALSE)
                            if g2 != FALSE and R[p, q] != FALSE:
                                terms.append(d.all_([R[p, q], g1, g2]))
                new[p1, q1] = d.any_(terms)
        if new == R:
            break
        R = new
    acc_ok = d.all_(d.or_(R[p, q] ^ 1, d.iff(v1.F[p], v2.F[q])) for p in n1 for q in n2)
    func = d.all_(d.or_(d.and_(R[p, q], R[p, q2]) ^ 1, FALSE) for p in n1 for q in n2 for q2 in n2 if q != q2)
    inj = d.all_(d.or_(d.and_(R[p, q], R[p2, q]) ^ 1, FALSE) for q in n2 for p in n1 for p2 in n1 if p != p2)
    return d.all_([acc_ok, func, inj]), R


def job_iso(job, n1, n2, k, which, order='fixed'):
    import gambatools.dfa_algorithms as DA
    from .oracles import DfaView
    fn = getattr(DA, which)
    job.functions('dfa_algorithms', [which, 'set_element'])
    if order == 'symbolic':
        L.ORDER['mode'] = 'symbolic'
    D1, names1, syms = c.sym_dfa(n1, k, tag='A')
    D2, names2, _ = c.sym_dfa(n2, k, tag='B', names=['p%d' % i for i in range(n2)])
    v1 = DfaView(D1, names1, syms)
    v2 = DfaView(D2, names2, syms)
    job.inputs['D1'] = D1
    job.inputs['D2'] = D2
    job.decoders['D1'] = v1.to_json
    job.decoders['D2'] = v2.to_json
    d = E.dag
    E.while_bound = 2 * n1 * n2 + 6
    res = fn(D1, D2)
    res_sym = fn(D2, D1)
    job.lifted()
    nd = c.native('dfa_algorithms')
    job.differential(40, lambda mv: (c.conc(res, mv), c.conc(res_sym, mv)),
                     lambda mv: (lambda a, b: (getattr(nd, which)(a, b), getattr(nd, which)(b, a)))(nat.mk_dfa(v1.to_json(mv), c.native('dfa')), nat.mk_dfa(v2.to_json(mv), c.native('dfa'))),
                     which)
    iso, R = pair_oracle(v1, v2)
    rp = ('iso', {'D1': v1.to_json, 'D2': v2.to_json, 'which': which})
    job.oblige('%s(D1, D2) == isomorphism of the reachable parts' % which, d.iff(E.lit(res), iso) ^ 1, replay=rp)
    job.oblige('%s(D2, D1) == %s(D1, D2)' % (which, which), d.iff(E.lit(res_sym), E.lit(res)) ^ 1, replay=rp)
    job.failures_as_obligations(replay=rp)
    job.must_reach('isomorphic pair with all states reachable', d.all_([iso] + [d.any_(R[p, q] for q in names2) for p in names1]) if n1 == n2 else iso)
    job.must_reach('non-isomorphic pair', iso ^ 1)
    return job.solve()


def job_renamed_copy(job, n, k, which):
    """True for any DFA against a renamed copy of itself (symbolic renaming = symbolic permutation)"""
    import itertools
    import gambatools.dfa_algorithms as DA
    from gambatools.dfa import DFA
    from .oracles import DfaView
    fn = getattr(DA, which)
    job.functions('dfa_algorithms', [which])
    D1, names, syms = c.sym_dfa(n, k, tag='A')
    v1 = DfaView(D1, names, syms)
    new = ['p%d' % i for i in range(n)]
    perm = c.choice(list(itertools.permutations(new)), 'perm')
    pm = c.alt_map(perm)
    d = E.dag

    def ren(q):   # {new name: guard} for old state q
        i = names.index(q)
        out = {}
        for p, g in pm.items():
            out[p[i]] = d.or_(out.get(p[i], FALSE), g)
        return out
    delta2 = L.GDict()
    for x in new:
        for a in syms:
            alts = []
            for q in names:
                for t, gt in v1.dl[(q, a)].items():
                    for y, gy in ren(t).items():
                        alts.append((d.all_([ren(q).get(x, FALSE), gt, gy]), y))
            delta2.m[(x, a)] = [TRUE, E.mk(alts)]
    F2 = L.GSet()
    for x in new:
        F2.m[x] = d.any_(d.and_(ren(q).get(x, FALSE), v1.F[q]) for q in names)
    q02 = E.mk([(g, y) for y, g in ren(names[0]).items()])
    D2 = DFA(L.GSet(new), L.GSet(syms), delta2, q02, F2)
    v2 = DfaView(D2, new, syms)
    job.inputs['D1'] = D1
    job.inputs['D2'] = D2
    job.decoders['D1'] = v1.to_json
    job.decoders['D2'] = v2.to_json
    E.while_bound = 2 * n * n + 6
    res = fn(D1, D2)
    job.lifted()
    job.oblige('%s(D, renamed copy of D) is True' % which, E.lit(res) ^ 1, replay=('iso', {'D1': v1.to_json, 'D2': v2.to_json, 'which': which, 'expect': True}))
    job.failures_as_obligations(replay=('iso', {'D1': v1.to_json, 'D2': v2.to_json, 'which': which, 'expect': True}))
    return job.solve()


def jobs(tier):
    J = []

    def add(name, fn, timeout=None, **params):
        J.append({'name': name, 'fn': fn, 'params': params, **({'timeout': timeout} if timeout else {})})
    for which in ('dfa_isomorphic1', 'dfa_isomorphic'):
        s = 'iso1' if which.endswith('1') else 'iso'
        if tier == 'quick':
            add('%s_2x2_k2' % s, job_iso, n1=2, n2=2, k=2, which=which)
            add('%s_2x2_k1_order' % s, job_iso, n1=2, n2=2, k=1, which=which, order='symbolic')
            add('%s_3x2_k1' % s, job_iso, n1=3, n2=2, k=1, which=which)
            add('%s_1x2_k2' % s, job_iso, n1=1, n2=2, k=2, which=which)
            add('%s_3x3_k1' % s, job_iso, n1=3, n2=3, k=1, which=which)
            add('%s_renamed_n3_k2' % s, job_renamed_copy, n=3, k=2, which=which)
        else:
            add('%s_3x3_k2' % s, job_iso, n1=3, n2=3, k=2, which=which, timeout=3000)
            add('%s_3x2_k2' % s, job_iso, n1=3, n2=2, k=2, which=which, timeout=3000)
            add('%s_2x2_k2_order' % s, job_iso, n1=2, n2=2, k=2, which=which, order='symbolic')
            add('%s_4x4_k1' % s, job_iso, n1=4, n2=4, k=1, which=which, timeout=3000)
            add('%s_renamed_n4_k2' % s, job_renamed_copy, n=4, k=2, which=which, timeout=3000)
    return J


def ref_iso(j1, j2):
    d1 = {(q, a): t for q, a, t in j1['delta']}
    d2 = {(q, a): t for q, a, t in j2['delta']}
    m, inv = {}, {}
    todo = [(j1['q0'], j2['q0'])]
    F1, F2 = set(j1['F']), set(j2['F'])
    while todo:
        p, q = todo.pop()
        if (p in m) or (q in inv):
            if m.get(p) != q or inv.get(q) != p:
                return False
            continue
        if (p in F1) != (q in F2):
            return False
        m[p] = q
        inv[q] = p
        for a in j1['Sigma']:
            todo.append((d1[p, a], d2[q, a]))
    return True


def _replay_iso(rp):
    import gambatools.dfa_algorithms as DA
    fn = getattr(DA, rp['which'])
    A, B = nat.mk_dfa(rp['D1']), nat.mk_dfa(rp['D2'])
    exp = ref_iso(rp['D1'], rp['D2'])
    got = fn(A, B)
    got2 = fn(B, A)
    return (got is not exp) or (got2 is not exp), {'library(D1,D2)': got, 'library(D2,D1)': got2, 'reference': exp}


REPLAY = {'iso': _replay_iso}
