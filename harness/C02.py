"""C02 -- bounded language enumeration is exact for all six formalisms."""
from . import common as c
from . import nat
from .common import E, L, TRUE, FALSE

META = {
    'bounds': {'quick': 'DFA / NFA: all automata with 3 states over {a, b}, n = 0..3; regexps: all trees of depth <= 2, n = 0..3; TMs: 2 working '
                        'states, budgets 0..4, n = 0..2; CNF grammars: all 2^19 grammars over S, A, B / a, b, n = 0..3; general grammars: '
                        'small families, n = 0..2; PDAs: the C09 families, limits 1..3, n = 0..2; generate_language compared with the '
                        'specific enumerator for every kind',
               'thorough': 'one notch up (4 states, depth 3, n <= 4)'},
    'outside': 'larger objects and bounds; generate_language for Turing machines runs with the default budget of 1000 steps, which '
               'is checked only on machines with one working state',
    'oracle': 'the reference semantics of C01 / C05 / C07 / C09 / C11 (the library\'s acceptance tests are proved equal to them '
              'within the same bounds there), conjoined with |w| <= n',
    'assumptions': ['objects valid', 'PDA: completeness is required only when no epsilon closure hits the limit'],
}


def check_enum(job, label, result, words_universe, member, n, rp):
    """result: engine set value; member(w): reference literal 'accepted'; obligation per word + nothing else"""
    d = E.dag
    m = {}
    notset = FALSE
    for g, v in E.alts(result):
        if isinstance(v, (L.GSet, L.FSet)):
            for e, p in v.m.items():
                m[e] = d.or_(m.get(e, FALSE), d.and_(g, p))
        elif isinstance(v, (set, frozenset)):
            for e in v:
                m[e] = d.or_(m.get(e, FALSE), g)
        else:
            notset = d.or_(notset, g)
    job.oblige('%s: the result is a set' % label, notset, replay=rp)
    for w in words_universe:
        ref = member(w) if len(w) <= n else FALSE
        job.oblige('%s: %r in the result iff accepted and not longer than %d' % (label, w, n), d.iff(m.get(w, FALSE), ref) ^ 1, replay=rp)
    junk = d.any_(g for e, g in m.items() if e not in set(words_universe))
    job.oblige('%s: nothing but words over the alphabet of length <= %d' % (label, n), junk, replay=rp)


def job_dfa(job, n, k, N):
    from gambatools.dfa_algorithms import dfa_words_up_to_n
    from gambatools.language_generator import generate_language
    from .oracles import DfaView, set_eq_bad
    job.functions('dfa_algorithms', ['dfa_words_up_to_n'])
    job.functions('language_generator', ['generate_language'])
    Dm, names, syms = c.sym_dfa(n, k)
    view = DfaView(Dm, names, syms)
    job.inputs['D'] = Dm
    job.decoders['D'] = view.to_json
    universe = c.words_upto(syms, N + 1)
    res = {}
    gen = {}
    for b in range(N + 1):
        res[b] = job.call(dfa_words_up_to_n, Dm, b, replay=('dfa', {'D': view.to_json, 'n': b}))
        gen[b] = job.call(generate_language, Dm, b, replay=('dfa', {'D': view.to_json, 'n': b}))
    job.lifted()
    nd = c.native('dfa_algorithms')
    job.differential(20, lambda mv: {b: c.conc(res[b], mv) for b in res}, lambda mv: {b: nd.dfa_words_up_to_n(nat.mk_dfa(view.to_json(mv), c.native('dfa')), b) for b in res}, 'dfa_words_up_to_n', replay=('dfa', {'D': view.to_json, 'n': N}))
    for b in range(N + 1):
        rp = ('dfa', {'D': view.to_json, 'n': b})
        if res[b] is not None:
            check_enum(job, 'dfa_words_up_to_n(D, %d)' % b, res[b], universe, view.accepts, b, rp)
        if gen[b] is not None and res[b] is not None:
            job.oblige('generate_language(D, %d) == dfa_words_up_to_n(D, %d)' % (b, b), L.EQ(gen[b], res[b]) ^ 1, replay=rp)
    job.failures_as_obligations(replay=('dfa', {'D': view.to_json, 'n': N}))
    return job.solve()


def job_generate_history(job, n, k, N):
    """generate_language must describe the object as it is now: enumerate, modify the same DFA object in place
    (toggle one accepting state, retarget one transition), enumerate again with the same bound"""
    from gambatools.language_generator import generate_language, check_equal_languages
    from .oracles import DfaView
    job.functions('language_generator', ['generate_language', 'check_equal_languages'])
    d = E.dag
    Dm, names, syms = c.sym_dfa(n, k)
    view0 = DfaView(Dm, names, syms)
    job.inputs['D'] = Dm
    job.decoders['D'] = view0.to_json
    universe = c.words_upto(syms, N + 1)
    first = generate_language(Dm, N)
    f = c.choice(names, 'mut_f')
    addf = E.fresh('mut_addF')
    for b in L.SPLIT(L.SB(addf)):
        with b:
            L.CALLM(Dm.F, 'add' if b.which else 'discard', f)
    p, a, q = c.choice(names, 'mut_p'), c.choice(syms, 'mut_a'), c.choice(names, 'mut_q')
    L.SETITEM(Dm.delta, (p, a), q)
    view1 = DfaView(Dm, names, syms)
    second = generate_language(Dm, N)
    job.lifted()
    mut = {'f': lambda mv: c.conc(f, mv), 'addF': lambda mv: mv(addf), 'p': lambda mv: c.conc(p, mv), 'a': lambda mv: c.conc(a, mv), 'q': lambda mv: c.conc(q, mv)}
    job.decoders['mutation'] = lambda mv: {k_: v(mv) for k_, v in mut.items()}
    job.inputs['mutation'] = None
    rp = ('history', {'D': view0.to_json, 'n': N, **mut})
    check_enum(job, 'first generate_language(D, %d)' % N, first, universe, view0.accepts, N, rp)
    check_enum(job, 'generate_language(D, %d) after in-place modification' % N, second, universe, view1.accepts, N, rp)
    job.failures_as_obligations(replay=rp)
    return job.solve()


def job_nfa(job, n, k, N, eps, partial):
    from gambatools.nfa_algorithms import nfa_words_up_to_n
    from gambatools.language_generator import generate_language
    from .oracles import NfaView
    job.functions('nfa_algorithms', ['nfa_words_up_to_n', '_nfa_cache'])
    Nm, names, syms = c.sym_nfa(n, k, eps=eps, partial=partial)
    view = NfaView(Nm, names, syms)
    job.inputs['N'] = Nm
    job.decoders['N'] = view.to_json
    universe = c.words_upto(syms, N + 1)
    res, gen = {}, {}
    for b in range(N + 1):
        rp = ('nfa', {'N': view.to_json, 'n': b})
        res[b] = job.call(nfa_words_up_to_n, Nm, b, replay=rp)
        gen[b] = job.call(generate_language, Nm, b, replay=rp)
    job.lifted()
    nn = c.native('nfa_algorithms')
    job.differential(20, lambda mv: {b: c.conc(res[b], mv) for b in res}, lambda mv: {b: nn.nfa_words_up_to_n(nat.mk_nfa(view.to_json(mv), c.native('nfa')), b) for b in res}, 'nfa_words_up_to_n', replay=('nfa', {'N': view.to_json, 'n': N}))
    for b in range(N + 1):
        rp = ('nfa', {'N': view.to_json, 'n': b})
        if res[b] is not None:
            check_enum(job, 'nfa_words_up_to_n(N, %d)' % b, res[b], universe, view.accepts, b, rp)
        if gen[b] is not None and res[b] is not None:
            job.oblige('generate_language(N, %d) == nfa_words_up_to_n(N, %d)' % (b, b), L.EQ(gen[b], res[b]) ^ 1, replay=rp)
    job.failures_as_obligations(replay=('nfa', {'N': view.to_json, 'n': N}))
    return job.solve()


def job_regexp(job, depth, N, syms='ab', shape=None):
    from gambatools.regexp_algorithms import regexp_words_up_to_n
    from gambatools.language_generator import generate_language
    from .regexp_sym import skeleton, shaped, Sem, regexp_json
    from .C05 import _tup
    job.functions('regexp_algorithms', ['regexp_words_up_to_n', 'concatenate'])
    syms = list(syms)
    r = shaped(_tup(shape), syms) if shape is not None else skeleton(depth, syms)
    dec = lambda mv: regexp_json(r, mv)
    job.inputs['r'] = r
    job.decoders['r'] = dec
    universe = c.words_upto(syms, N + 1)
    res, gen = {}, {}
    for b in range(N + 1):
        rp = ('regexp', {'r': dec, 'n': b})
        res[b] = job.call(regexp_words_up_to_n, r, b, replay=rp)
        if b == N:
            gen[b] = job.call(generate_language, r, b, replay=rp)
    job.lifted()
    nr = c.native('regexp_algorithms')
    job.differential(20, lambda mv: {b: c.conc(res[b], mv) for b in res},
                     lambda mv: (lambda rn: {b: nr.regexp_words_up_to_n(rn, b) for b in res})(nat.mk_regexp(dec(mv), c.native('regexp'))), 'regexp_words_up_to_n')
    sem = Sem()
    for b in range(N + 1):
        rp = ('regexp', {'r': dec, 'n': b})
        if res[b] is not None:
            check_enum(job, 'regexp_words_up_to_n(r, %d)' % b, res[b], universe, lambda w: sem.member(r, w), b, rp)
        if gen.get(b) is not None and res[b] is not None:
            job.oblige('generate_language(r, %d) == regexp_words_up_to_n(r, %d)' % (b, b), L.EQ(gen[b], res[b]) ^ 1, replay=rp)
    job.failures_as_obligations(replay=('regexp', {'r': dec, 'n': N}))
    return job.solve()


def job_tm(job, nwork, gamma_in, N, K, default_budget=False, budgets=None):
    from gambatools.tm_algorithms import tm_words_up_to_n
    from gambatools.language_generator import generate_language
    from .C11 import sym_tm, tm_json, RefTM
    job.functions('tm_algorithms', ['tm_words_up_to_n', 'tm_accepts_word'])
    gamma_in = list(gamma_in)
    T, states, gamma, entries = sym_tm(nwork, gamma_in, '_', 's0')
    dec = lambda mv: tm_json(states, gamma_in, gamma, '_', 's0', entries, mv)
    job.inputs['T'] = T
    job.decoders['T'] = dec
    universe = c.words_upto(gamma_in, N + 1)
    res = {}
    E.for_bound = 24
    budgets = budgets or ([K] if default_budget else list(range(K + 1)))
    for b in range(N + 1):
        for k in budgets:
            rp = ('tm', {'T': dec, 'n': b, 'budget': k, 'default': default_budget})
            res[b, k] = job.call(generate_language, T, b, replay=rp) if default_budget else job.call(tm_words_up_to_n, T, b, k, replay=rp)
    job.lifted()
    refs = {}
    for w in universe:
        refs[w] = RefTM(states, gamma, '_', 's0', 'qa', 'qr', entries, w, K)
    for (b, k), r in res.items():
        if r is None:
            continue
        rp = ('tm', {'T': dec, 'n': b, 'budget': k, 'default': default_budget})
        check_enum(job, ('generate_language(T, %d) [budget 1000]' % b) if default_budget else 'tm_words_up_to_n(T, %d, %d)' % (b, k), r, universe,
                   lambda w: refs[w].verdicts(k)[0], b, rp)
    job.failures_as_obligations(replay=('tm', {'T': dec, 'n': N, 'budget': K, 'default': default_budget}))
    return job.solve()


def job_cfg(job, kind, N, family=None, nsym=None, variables=None, pairs=None, history=False):
    from gambatools.cfg_algorithms import cfg_words_up_to_n
    from gambatools.language_generator import generate_language
    from .cfg_sym import sym_cfg, entries_json, GrammarSem
    from .C07 import cnf_candidates, FAMILIES
    job.functions('cfg_algorithms', ['cfg_words_up_to_n', 'cfg_to_chomsky'])
    terminals = ['a', 'b']
    if kind == 'cnf':
        variables = variables or ['S', 'A', 'B']
        G, entries = sym_cfg(variables, terminals, cnf_candidates(variables, terminals, 'S', pairs), 'S')
    else:
        variables, fixed, symbolic = FAMILIES[family]
        symbolic = symbolic[:nsym] if nsym else symbolic
        cands = [(X, tuple(r)) for X, r in fixed] + [(X, tuple(r)) for X, r in symbolic]
        G, entries = sym_cfg(variables, terminals, cands, variables[0], fixed=[(X, tuple(r)) for X, r in fixed])
    start = variables[0]
    dec = entries_json(entries, variables, terminals, start)
    job.inputs['G'] = G
    job.decoders['G'] = dec
    universe = c.words_upto(terminals, N + 1)
    E.while_bound = 60
    res, gen = {}, {}
    for b in range(N + 1):
        rp = ('cfg', {'G': dec, 'n': b})
        res[b] = job.call(cfg_words_up_to_n, G, b, replay=rp)
        if b == N:
            gen[b] = job.call(generate_language, G, b, replay=rp)
    res2 = {}
    if history:
        # call history: the same rules with another start variable enumerated right after the first grammar, then the first again
        import gambatools.cfg as C
        G2 = C.CFG(G.V, G.Sigma, G.R, C.Variable(variables[1]))
        rph = ('cfg_history', {'G': dec, 'second_start': variables[1], 'n': N})
        res2[1] = job.call(cfg_words_up_to_n, G2, N, replay=rph)
        res2[0] = job.call(generate_language, G, N, replay=rph)
    job.lifted()
    for which, r in res2.items():
        if r is not None:
            sems2 = {w: GrammarSem(entries, variables, w) for w in universe}
            check_enum(job, 'after other calls: words up to %d of the grammar with start variable %s' % (N, variables[which]), r, universe,
                       lambda w: sems2[w].derives(variables[which]), N, ('cfg_history', {'G': dec, 'second_start': variables[1], 'n': N}))
    ncfg = c.native('cfg_algorithms')
    job.differential(15, lambda mv: {b: c.conc(res[b], mv) for b in res},
                     lambda mv: (lambda Gn: {b: ncfg.cfg_words_up_to_n(Gn, b) for b in res})(nat.mk_cfg(dec(mv), c.native('cfg'))), 'cfg_words_up_to_n', replay=('cfg', {'G': dec, 'n': N}))
    sems = {w: GrammarSem(entries, variables, w) for w in universe}
    for b in range(N + 1):
        rp = ('cfg', {'G': dec, 'n': b})
        if res[b] is not None:
            check_enum(job, 'cfg_words_up_to_n(G, %d)' % b, res[b], universe, lambda w: sems[w].derives(start), b, rp)
        if gen.get(b) is not None and res[b] is not None:
            job.oblige('generate_language(G, %d) == cfg_words_up_to_n(G, %d)' % (b, b), L.EQ(gen[b], res[b]) ^ 1, replay=rp)
    job.failures_as_obligations(replay=('cfg', {'G': dec, 'n': N}))
    return job.solve()


def job_pda(job, fam, limit, N, eps='_', seed=0, nsym=6):
    from gambatools.pda_algorithms import pda_words_up_to_n
    from gambatools.language_generator import generate_language
    from .pda_sym import sym_pda, pda_json, RefPDA
    from .C09 import family, STATES, set_limit
    from .harness_util import count_map
    job.functions('pda_algorithms', ['pda_words_up_to_n', 'pda_epsilon_closure', 'pda_do_transition'])
    d = E.dag
    gamma, fixed, sym = family(fam, eps, seed, nsym)
    sigma = ['a']
    P, trans, fbits = sym_pda(STATES, sigma, gamma, eps, fixed, sym)
    dec = pda_json(STATES, sigma, gamma, eps, trans, fbits, 'p')
    job.inputs['P'] = P
    job.decoders['P'] = dec
    set_limit(limit)
    E.while_bound = limit + 2
    universe = c.words_upto(sigma, N + 1)
    res, gen = {}, {}
    for b in range(N + 1):
        rp = ('pda', {'P': dec, 'n': b, 'limit': limit})
        res[b] = job.call(pda_words_up_to_n, P, b, replay=rp)
        if b == N:
            gen[b] = job.call(generate_language, P, b, replay=rp)
    job.lifted()
    ref = RefPDA(trans, fbits, {'p': TRUE}, eps, maxdepth=(limit + 2) * (N + 2) + N + 2)
    sizes_ok = lambda conf: d.any_(g for k, g in count_map([g for g in conf.values() if g != FALSE]).items() if k <= limit)
    sound, complete, premise = {}, {}, {}
    for w in universe:
        cur, _ = ref.closure(ref.initial(), limit)
        for a in w:
            cur, _ = ref.closure(ref.moves(cur, a), limit)
        sound[w] = ref.accepts_lit(cur)
        cur, fr = ref.closure(ref.initial(), limit + 1)
        pr = d.and_(d.any_(fr.values()) ^ 1, sizes_ok(cur))
        for a in w:
            cur, fr = ref.closure(ref.moves(cur, a), limit + 1)
            pr = d.all_([pr, d.any_(fr.values()) ^ 1, sizes_ok(cur)])
        premise[w], complete[w] = pr, ref.accepts_lit(cur)
    for b in range(N + 1):
        rp = ('pda', {'P': dec, 'n': b, 'limit': limit})
        if res[b] is None:
            continue
        m = L._setview(res[b]).m
        for w in universe:
            inres = m.get(w, FALSE)
            if len(w) > b:
                job.oblige('pda_words_up_to_n(P, %d): %r (too long) not in the result' % (b, w), inres, replay=rp)
                continue
            job.oblige('pda_words_up_to_n(P, %d): %r in the result only if an accepting computation exists' % (b, w), d.and_(inres, sound[w] ^ 1), replay=rp)
            job.oblige('pda_words_up_to_n(P, %d): %r in the result if accepted and no closure hits the limit' % (b, w),
                       d.all_([premise[w], complete[w], inres ^ 1]), replay=rp)
        job.oblige('pda_words_up_to_n(P, %d): only words over the alphabet' % b, d.any_(g for e, g in m.items() if e not in set(universe)), replay=rp)
        if gen.get(b) is not None:
            allp = d.all_(premise[w] for w in universe if len(w) <= b)
            job.oblige('generate_language(P, %d) == pda_words_up_to_n(P, %d) (when no closure hits the limit)' % (b, b),
                       d.and_(allp, L.EQ(gen[b], res[b]) ^ 1), replay=rp)
    job.failures_as_obligations(replay=('pda', {'P': dec, 'n': N, 'limit': limit}))
    return job.solve()


def jobs(tier):
    J = []

    def add(name, fn, timeout=None, **params):
        J.append({'name': name, 'fn': fn, 'params': params, **({'timeout': timeout} if timeout else {})})
    q = tier == 'quick'
    tmo = 900 if q else 3000
    add('dfa', job_dfa, n=3 if q else 4, k=2, N=3 if q else 4, timeout=tmo)
    add('dfa_k0', job_dfa, n=2, k=0, N=1)
    add('nfa', job_nfa, n=3, k=2 if not q else 2, N=3 if q else 4, eps='', partial=False, timeout=tmo)
    add('nfa_sparse', job_nfa, n=2 if q else 3, k=2, N=3, eps='_', partial=True, timeout=tmo)
    add('regexp_d2', job_regexp, depth=2, N=3 if q else 4, timeout=tmo)
    add('regexp_star_of_d2', job_regexp, depth=3, N=3, shape=['I', 2], timeout=tmo)
    add('regexp_concat_d1_star', job_regexp, depth=3, N=3, shape=['C', 1, ['I', 1]], timeout=tmo)
    add('regexp_digits', job_regexp, depth=2, N=2, syms='01', timeout=tmo)
    add('regexp_digits_d1', job_regexp, depth=1, N=2, syms='01', timeout=tmo)
    add('generate_history', job_generate_history, n=2, k=2, N=2, timeout=tmo)
    add('tm_small_exact', job_tm, nwork=1, gamma_in='a', N=1, K=2, budgets=[1], timeout=tmo)
    if not q:
        add('regexp_d3', job_regexp, depth=3, N=3, timeout=tmo)
    add('tm', job_tm, nwork=2, gamma_in='a', N=2, K=4 if q else 6, timeout=tmo)
    add('tm_g2', job_tm, nwork=1, gamma_in='ab', N=2, K=3, timeout=tmo)
    add('cfg_cnf_2vars', job_cfg, kind='cnf', variables=['S', 'A'], N=3 if q else 4, timeout=tmo)
    add('cfg_cnf_3vars', job_cfg, kind='cnf', variables=['S', 'A', 'B'], pairs=[['A', 'B']], N=3, timeout=tmo)
    add('cfg_history_eps_unit', job_cfg, kind='general', family='eps_unit', nsym=5, N=2, history=True, timeout=tmo)
    add('cfg_history_three_vars', job_cfg, kind='general', family='three_vars', nsym=5, N=2, history=True, timeout=tmo)
    for fam in ('eps_unit', 'three_vars', 'indirect_nullable'):
        add('cfg_%s' % fam, job_cfg, kind='general', family=fam, nsym=5 if q else 7, N=2 if q else 3, timeout=tmo)
    for fam in ('grow_cycle', 'replace_and_pop', 'two_stack_symbols'):
        for limit in ((2, 3) if q else (1, 2, 3, 5)):
            add('pda_%s_limit%d' % (fam, limit), job_pda, fam=fam, limit=limit, N=2 if q else 3, nsym=5 if q else 7, timeout=tmo)
    return J


# ------------------------------------------------------------------ native replay (relative to the library's acceptance tests)
def _replay_generic(make, enum, accepts, alphabet):
    def run(rp):
        import gambatools.language_generator as LG
        obj = make(rp)
        n = rp['n']
        try:
            got = enum(obj, rp)
        except Exception as e:
            return True, {'library raised': repr(e)}
        sig = alphabet(rp)
        exp = {w for w in nat.words_upto(sig, n) if accepts(obj, w, rp)}
        problems = {}
        if got != exp:
            problems['enumerated'] = sorted(got)
            problems['accepted words up to n'] = sorted(exp)
        try:
            g2 = LG.generate_language(obj, n)
            if g2 != got and not rp.get('budget') is not None:
                problems['generate_language'] = sorted(g2)
        except Exception as e:
            problems['generate_language raised'] = repr(e)
        return bool(problems), problems
    return run


def _replay_dfa(rp):
    from gambatools.dfa_algorithms import dfa_words_up_to_n, dfa_accepts_word
    return _replay_generic(lambda r: nat.mk_dfa(r['D']), lambda o, r: dfa_words_up_to_n(o, r['n']), lambda o, w, r: dfa_accepts_word(o, w), lambda r: r['D']['Sigma'])(rp)


def _replay_nfa(rp):
    from gambatools.nfa_algorithms import nfa_words_up_to_n, nfa_accepts_word
    return _replay_generic(lambda r: nat.mk_nfa(r['N']), lambda o, r: nfa_words_up_to_n(o, r['n']), lambda o, w, r: nfa_accepts_word(o, w), lambda r: r['N']['Sigma'])(rp)


def _replay_regexp(rp):
    from gambatools.regexp_algorithms import regexp_words_up_to_n, regexp_accepts_word

    def syms(js):
        out = set()
        if js[0] == 'Symbol':
            out.add(js[1])
        for x in js[1:]:
            if isinstance(x, list):
                out |= syms(x)
        return out
    return _replay_generic(lambda r: nat.mk_regexp(r['r']), lambda o, r: regexp_words_up_to_n(o, r['n']), lambda o, w, r: regexp_accepts_word(o, w),
                           lambda r: sorted(syms(r['r']) | {'a'}))(rp)


def _replay_tm(rp):
    from gambatools.tm_algorithms import tm_words_up_to_n, tm_accepts_word
    import gambatools.language_generator as LG
    T = nat.mk_tm(rp['T'])
    n, k = rp['n'], rp['budget']
    try:
        got = LG.generate_language(T, n) if rp.get('default') else tm_words_up_to_n(T, n, k)
    except Exception as e:
        return True, {'library raised': repr(e)}
    kk = 1000 if rp.get('default') else k
    exp = {w for w in nat.words_upto(rp['T']['Sigma'], n) if tm_accepts_word(T, w, kk) is True}
    return got != exp, {'enumerated': sorted(got), 'accepted within the budget': sorted(exp)}


def _replay_cfg(rp):
    from gambatools.cfg_algorithms import cfg_words_up_to_n, cfg_accepts_word
    return _replay_generic(lambda r: nat.mk_cfg(r['G']), lambda o, r: cfg_words_up_to_n(o, r['n']), lambda o, w, r: cfg_accepts_word(o, w), lambda r: r['G']['Sigma'])(rp)


def _replay_pda(rp):
    from gambatools.global_settings import GambaTools
    from gambatools.pda_algorithms import pda_words_up_to_n, pda_accepts_word
    import gambatools.language_generator as LG
    js = rp['P']
    GambaTools.pda_epsilon_closure_max_iterations = rp['limit']
    P = nat.mk_pda(js)
    n = rp['n']
    try:
        got = pda_words_up_to_n(P, n)
    except Exception as e:
        return True, {'library raised': repr(e)}
    problems = []
    for w in got:
        if len(w) > n:
            problems.append('%r longer than %d' % (w, n))
        acc, complete, sizes = nat.ref_pda_run(js, w, max_confs=20000)
        if not acc:
            problems.append('%r enumerated but has no accepting computation' % w)
    allok = True
    for w in nat.words_upto(js['Sigma'], n):
        acc, complete, sizes = nat.ref_pda_run(js, w)
        ok = complete and max(sizes) <= rp['limit']
        allok = allok and ok
        if ok and acc and w not in got:
            problems.append('%r accepted (closures %s within the limit) but not enumerated' % (w, sizes))
    if allok and LG.generate_language(P, n) != got:
        problems.append('generate_language differs')
    return bool(problems), {'problems': problems[:4]}


def _replay_history(rp):
    import gambatools.language_generator as LG
    from gambatools.dfa_algorithms import dfa_accepts_word
    D = nat.mk_dfa(rp['D'])
    n = rp['n']
    words = nat.words_upto(rp['D']['Sigma'], n)
    first = LG.generate_language(D, n)
    ok1 = first == {w for w in words if dfa_accepts_word(D, w)}
    (D.F.add if rp['addF'] else D.F.discard)(rp['f'])
    D.delta[rp['p'], rp['a']] = rp['q']
    second = LG.generate_language(D, n)
    exp2 = {w for w in words if dfa_accepts_word(D, w)}
    return (not ok1) or second != exp2, {'first ok': ok1, 'second': sorted(second), 'expected': sorted(exp2)}


def _replay_cfg_history(rp):
    from gambatools.cfg_algorithms import cfg_words_up_to_n
    from gambatools.language_generator import generate_language
    js, n = rp['G'], rp['n']
    js2 = dict(js, S=rp['second_start'])
    problems = []
    for j, fn in ((js, cfg_words_up_to_n), (js2, cfg_words_up_to_n), (js, generate_language)):
        try:
            got = fn(nat.mk_cfg(j), n)
        except Exception as e:
            problems.append('start %s: raised %r' % (j['S'], e))
            continue
        ref = set(w for w in nat.words_upto(j['Sigma'], n) if nat.ref_cfg_accepts(j, w))
        if got != ref:
            problems.append('start %s (after earlier calls): %s gives %r, reference %r' % (j['S'], fn.__name__, sorted(got), sorted(ref)))
    return bool(problems), {'problems': problems}


REPLAY = {'cfg_history': _replay_cfg_history, 'history': _replay_history, 'dfa': _replay_dfa, 'nfa': _replay_nfa, 'regexp': _replay_regexp, 'tm': _replay_tm, 'cfg': _replay_cfg, 'pda': _replay_pda}
