"""C04 -- the three minimisers return an equivalent DFA with pairwise distinguishable states."""
import itertools

from . import common as c
from . import nat
from .common import E, L, TRUE, FALSE

META = {
    'bounds': {'quick': 'dfa_minimize: all DFAs with n<=3 states, |Sigma|<=2, every iteration order of Q / Sigma (symbolic '
                        'permutations); dfa_quotient and dfa_hopfcroft: n<=2 with |Sigma|<=2 fully symbolic with all pop / '
                        'set_element / iteration orders, n=3 with |Sigma|=1; language equality for ALL word lengths by the '
                        'exact bound n + n\' - 2',
               'thorough': 'dfa_minimize n<=4; quotient / Hopcroft n=3, |Sigma|=2 with cube splitting on F'},
    'outside': 'DFAs with more states / symbols; iteration orders beyond the enumerated permutations for sets with more than 3 '
               '(thorough: 4) elements, where a seeded family of orders is used; with logging enabled the log() arguments are '
               'formatted (checked separately at a small bound), otherwise they are not evaluated (formatting stub)',
    'oracle': 'Myhill-Nerode table filling over the input bits (distinguishability fixpoint), the same on the result automaton; '
              'one-hot DFA semantics along one position-wise symbolic word of the exact-bound length',
    'assumptions': ['input DFA valid and total (DFA._check_validity)', 'log(...) arguments are pure formatting (stubbed when logging is off)'],
}


def count_map(lits):
    """{k: lit 'exactly k of lits are true'}"""
    d = E.dag
    cur = [TRUE]
    for p in lits:
        nxt = [FALSE] * (len(cur) + 1)
        for k, cc in enumerate(cur):
            nxt[k] = d.or_(nxt[k], d.and_(cc, p ^ 1))
            nxt[k + 1] = d.or_(nxt[k + 1], d.and_(cc, p))
        cur = nxt
    return {k: g for k, g in enumerate(cur) if g != FALSE}


def job_min(job, which, n, k, order='fixed', cube=None, logging=False):
    import gambatools.dfa_algorithms as DA
    from .oracles import DfaView
    fn = getattr(DA, which)
    job.functions('dfa_algorithms', [which, 'dfa_from_table', 'set_element'])
    if order == 'symbolic':
        L.ORDER['mode'] = 'symbolic'
    if logging:
        L.LOGGING['mode'] = 'eval'
        from gambatools.global_settings import GambaTools
        GambaTools.enable_logging = True
    Dm, names, syms = c.sym_dfa(n, k)
    d = E.dag
    if cube is not None:
        # cube splitting: the accepting set is fixed to the given pattern (one cube of 2^n)
        for i, q in enumerate(names):
            E.assumptions.append(Dm.F.m[q] if cube[i] == '1' else Dm.F.m[q] ^ 1)
    view = DfaView(Dm, names, syms)
    job.inputs['D'] = Dm
    job.decoders['D'] = view.to_json
    E.while_bound = 4 * n * max(k, 1) + 8
    R = fn(Dm)
    job.lifted()
    nd = c.native('dfa_algorithms')
    if order != 'symbolic' and not logging:
        def nat_view(mv):
            r = getattr(nd, which)(nat.mk_dfa(view.to_json(mv), c.native('dfa')))
            return (len(r.Q), len(r.F), sorted(r.Sigma))
        job.differential(30, lambda mv: (lambda r: (len(r.Q), len(r.F), sorted(r.Sigma)))(c.conc(R, mv)), nat_view, which, replay=('minimise', {'D': view.to_json, 'which': which}))
    rp = ('minimise', {'D': view.to_json, 'which': which})
    rv = DfaView(R, None, syms)
    from .oracles import set_eq_bad, field
    job.oblige('alphabet unchanged', set_eq_bad(field(R, 'Sigma'), {a: TRUE for a in syms}), replay=rp)
    job.oblige('result is total', d.any_(d.and_(rv.qpres[s], d.any_(rv.dl.get((s, a), {}).values()) ^ 1) for s in rv.names for a in syms), replay=rp)
    # language equality for all words: exact bound n + |Q'| - 2 (a DFA counts as its own size)
    B = n + len(rv.names) - 2
    W = c.sym_positions(syms, B) if syms else []
    v1, v2 = view.init(), rv.init()
    for l in range(B + 1):
        job.oblige('L(result) and L(D) agree on every word of length %d' % l, d.iff(view.acc(v1), rv.acc(v2)) ^ 1, replay=rp)
        if not syms:
            break
        if l < B:
            v1, v2 = view.step(v1, W[l]), rv.step(v2, W[l])
    # pairwise distinguishable result states
    dist_r = rv.distinguishable()
    job.oblige('no two states of the result are equivalent',
               d.any_(d.all_([rv.qpres[s], rv.qpres[t], dist_r(s, t) ^ 1]) for s, t in itertools.combinations(rv.names, 2)), replay=rp)
    # size between the number of Myhill-Nerode classes of the reachable states and of all states
    dist = view.distinguishable()
    reach = view.reachable()
    rep_all = [d.all_(dist(names[j], names[i]) for j in range(i)) for i in range(n)]
    rep_reach = [d.and_(reach[names[i]], d.all_(d.or_(reach[names[j]] ^ 1, dist(names[j], names[i])) for j in range(i))) for i in range(n)]
    size = count_map([rv.qpres[s] for s in rv.names])
    ca, cr = count_map(rep_all), count_map(rep_reach)
    job.oblige('|Q\'| <= number of classes of all states', d.any_(d.and_(g, h) for s, g in size.items() for a, h in ca.items() if s > a), replay=rp)
    job.oblige('|Q\'| >= number of classes of the reachable states', d.any_(d.and_(g, h) for s, g in size.items() for a, h in cr.items() if s < a), replay=rp)
    # argument unchanged
    after = DfaView(Dm, names, syms)
    changed = d.any_(d.iff(view.F[q], after.F[q]) ^ 1 for q in names)
    changed = d.or_(changed, d.any_(d.iff(view.qpres[q], after.qpres[q]) ^ 1 for q in names))
    for key in set(view.dl) | set(after.dl):
        for t in set(view.dl.get(key, {})) | set(after.dl.get(key, {})):
            changed = d.or_(changed, d.iff(view.dl.get(key, {}).get(t, FALSE), after.dl.get(key, {}).get(t, FALSE)) ^ 1)
    extra = [e for e in L._setview(Dm.Q).m if e not in names] + [e for e in L._setview(Dm.F).m if e not in names]
    changed = d.or_(changed, d.any_(L._setview(Dm.Q).m.get(e, FALSE) for e in extra))
    changed = d.or_(changed, d.any_(L._setview(Dm.F).m.get(e, FALSE) for e in extra))
    job.oblige('argument DFA unchanged', changed, replay=rp)
    job.failures_as_obligations(replay=rp)
    if n >= 2:
        job.must_reach('two equivalent states exist', dist(names[0], names[1]) ^ 1)
        job.must_reach('an unreachable state exists', reach[names[-1]] ^ 1)
    res = job.solve()
    res['cubes'] = cube
    return res


def jobs(tier):
    J = []

    def add(name, timeout=None, rungs=None, **params):
        J.append({'name': name, 'fn': job_min, 'params': params, **({'rungs': rungs} if rungs else {}), **({'timeout': timeout} if timeout else {})})
    if tier == 'quick':
        add('minimize_n3_k2', which='dfa_minimize', n=3, k=2)
        add('minimize_n3_k1_orders', which='dfa_minimize', n=3, k=1, order='symbolic')
        add('minimize_n2_k2_orders', which='dfa_minimize', n=2, k=2, order='symbolic')
        add('minimize_n1_k2', which='dfa_minimize', n=1, k=2)
        add('minimize_n2_k0', which='dfa_minimize', n=2, k=0)
        add('quotient_n2_k2', which='dfa_quotient', n=2, k=2)
        add('quotient_n2_k1_orders', which='dfa_quotient', n=2, k=1, order='symbolic')
        add('quotient_n1_k1', which='dfa_quotient', n=1, k=1)
        add('hopcroft_n2_k2', which='dfa_hopfcroft', n=2, k=2)
        add('hopcroft_n2_k1_orders', which='dfa_hopfcroft', n=2, k=1, order='symbolic')
        add('hopcroft_n3_k1', which='dfa_hopfcroft', n=3, k=1)
        add('hopcroft_n1_k1', which='dfa_hopfcroft', n=1, k=1)
        add('hopcroft_n2_k1_logging', which='dfa_hopfcroft', n=2, k=1, logging=True)
    else:
        add('minimize_n4_k2', which='dfa_minimize', n=4, k=2, timeout=3000)
        add('quotient_n3_k1', which='dfa_quotient', n=3, k=1, timeout=3000)
        add('minimize_n3_k2_orders', which='dfa_minimize', n=3, k=2, order='symbolic', timeout=3000)
        for cube in ['000', '001', '010', '011', '100', '101', '110', '111']:
            add('quotient_n3_k2_F%s' % cube, which='dfa_quotient', n=3, k=2, cube=cube, timeout=3000)
            add('hopcroft_n3_k2_F%s' % cube, which='dfa_hopfcroft', n=3, k=2, cube=cube, timeout=3000)
        add('quotient_n2_k2_orders', which='dfa_quotient', n=2, k=2, order='symbolic', timeout=3000)
        add('hopcroft_n2_k2_orders', which='dfa_hopfcroft', n=2, k=2, order='symbolic', timeout=3000)
    return J


# ------------------------------------------------------------------ native replay
def ref_classes(js, only_reachable):
    delta = {(q, a): t for q, a, t in js['delta']}
    Q = list(js['Q'])
    if only_reachable:
        seen = {js['q0']}
        todo = [js['q0']]
        while todo:
            q = todo.pop()
            for a in js['Sigma']:
                t = delta[q, a]
                if t not in seen:
                    seen.add(t)
                    todo.append(t)
        Q = [q for q in Q if q in seen]
    F = set(js['F'])
    dist = {frozenset((p, q)) for p, q in itertools.combinations(js['Q'], 2) if (p in F) != (q in F)}
    changed = True
    while changed:
        changed = False
        for p, q in itertools.combinations(js['Q'], 2):
            if frozenset((p, q)) in dist:
                continue
            for a in js['Sigma']:
                p1, q1 = delta[p, a], delta[q, a]
                if p1 != q1 and frozenset((p1, q1)) in dist:
                    dist.add(frozenset((p, q)))
                    changed = True
                    break
    reps = []
    for q in Q:
        if all(frozenset((r, q)) in dist for r in reps):
            reps.append(q)
    return len(reps), dist


def _replay_minimise(rp):
    import gambatools.dfa_algorithms as DA
    js = rp['D']
    Dn = nat.mk_dfa(js)
    before = nat.dfa_json_of(Dn)
    try:
        R = getattr(DA, rp['which'])(Dn)
    except Exception as e:
        return True, {'library raised': repr(e)}
    problems = []
    if nat.dfa_json_of(Dn) != before:
        problems.append('argument modified')
    rj = nat.dfa_json_of(R)
    if set(R.Sigma) != set(js['Sigma']):
        problems.append('alphabet differs')
    try:
        nat.mk_dfa(rj)
        n_all, _ = ref_classes(js, False)
        n_reach, _ = ref_classes(js, True)
        if not (n_reach <= len(R.Q) <= n_all):
            problems.append('size %d not in [%d, %d]' % (len(R.Q), n_reach, n_all))
        nr, dist_r = ref_classes(rj, False)
        if nr != len(R.Q):
            problems.append('result has equivalent states')
        for w in nat.words_upto(js['Sigma'], len(js['Q']) + len(R.Q)):
            if nat.ref_dfa_accepts(js, w) != nat.ref_dfa_accepts(rj, w):
                problems.append('languages differ on %r' % w)
                break
    except Exception as e:
        problems.append('result invalid: %r' % e)
    return bool(problems), {'problems': problems, 'result': str(R)[:300]}


REPLAY = {'minimise': _replay_minimise}
