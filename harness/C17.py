"""C17 -- parsers build exactly what was written and reject malformed descriptions."""
import itertools

from . import common as c
from . import nat
from .common import E, L, TRUE, FALSE

META = {
    'bounds': {'quick': 'DFA: every DFA with <= 3 states over {a, b}; NFA: every relation over 2 states, {a, b} and 3 states over {a}, '
                        "epsilon '_' / 'ε' / 'e'; each rendered by the harness in symbolic layouts: declaration block before or "
                        'after the transition lines, the final line inside the block or at the very end, states / input_symbols / '
                        'epsilon / (empty) final declarations present or omitted, comment and blank lines, one line per label or '
                        'all labels of a state pair on one line; then at most one corruption out of: second transition for a '
                        '(state, symbol) pair [DFA], missing transition [DFA], undeclared state, undeclared symbol, no initial '
                        'line, two initial states, a repeated states / initial / final / input_symbols / epsilon declaration, a '
                        'transition line with two tokens, a transition line with one token; PDA / TM: a concrete machine with one '
                        'transition label replaced by labels of the wrong length',
               'thorough': 'additionally NFA with 3 states over {a, b}, PDA samples of 9 candidate transitions'},
    'outside': 'texts that are not renderings of the stated layouts; labels with a wrong separator character (the builders ignore the '
               'separator position, e.g. "a;uv"); duplicated identical transition lines',
    'oracle': 'the automaton the text describes is known by construction (states: declared or used, alphabet: declared or used, '
              "epsilon: declared, else 'ε' if it occurs, else '_'); field-by-field comparison with the returned object; for a "
              'corrupted text: some exception must be raised; for every returned object the class invariant is re-checked by a '
              'reference predicate',
    'assumptions': ['single-character symbols', 'state names q0, q1, ..'],
}


def attempt(fn, *args):
    """run a lifted call; -> (result, literal 'an exception was raised', {kind: literal})"""
    d = E.dag
    t = L.TRY_BEGIN()
    res = None
    always = False
    try:
        res = fn(*args)
    except L.LiftError:
        raise
    except Exception as e:       # raised on every path
        always = type(e).__name__
    region = E.errors[t.idx:]
    kinds = {}
    for lit, kind, msg in region:
        kinds[kind] = d.or_(kinds.get(kind, FALSE), lit)
    lits = [lit for lit, _, _ in region]
    L.TRY_HANDLERS(t, [Exception])          # removes the region from E.errors and revives the paths it killed
    if always:
        lits = [TRUE]
    # the disjunction is built by the caller AFTER job.lifted(), i.e. without the encoder's semantic folding, so that
    # 'rejected on every input' is decided by the solver and not by the encoder's truth tables
    return res, (lambda: E.dag.any_(lits)), kinds


def rope_text(rope, mv):
    """the concrete text of a rope under a model: the pieces whose guard holds, each decoded on its own"""
    return ''.join(c.conc(p, mv) for g, p in rope.pieces if mv(g))


def subsets_line(prefix, items):
    """[(guard, text)] alternatives of the line '<prefix> x y ..' listing exactly the items whose literal holds;
    items: [(name, lit)]"""
    d = E.dag
    alts = []
    for mask in itertools.product([0, 1], repeat=len(items)):
        g = d.all_(lit if m else lit ^ 1 for m, (_, lit) in zip(mask, items))
        if g == FALSE:
            continue
        words = [nm for m, (nm, _) in zip(mask, items) if m]
        alts.append((g, ' '.join([prefix] + words) + '\n'))
    return E.mk(alts)


class Layout:
    """symbolic layout choices of a description"""

    def __init__(self, tag=''):
        f = lambda n: E.fresh('lay_%s%s' % (tag, n))
        self.block_first = f('block_first')      # declarations before the transitions
        self.final_last = f('final_last')        # 'final' line at the very end instead of inside the block
        self.states_decl = f('states')           # 'states ...' present
        self.symbols_decl = f('symbols')         # 'input_symbols ...' present
        self.eps_decl = f('eps')                 # 'epsilon x' present (NFA)
        self.final_decl = f('final')             # 'final' present although F is empty
        self.multi = f('multi')                  # all labels of a state pair on one line
        self.comments = f('comments')            # a comment line and a blank line in between

    def json(self, mv):
        return {k: bool(mv(v)) for k, v in self.__dict__.items()}


def render(names, labels, T, F, lay, eps=None, corrupt=None):
    """rope of the description. T[(p, a, q)] literal; labels = input symbols (+ eps symbol for NFAs).
    corrupt: dict of extra / replaced lines (see jobs)"""
    d = E.dag
    cor = corrupt or {}
    block = []
    if not cor.get('drop_states'):
        block.append((lay.states_decl if not cor.get('force_states') else TRUE, 'states ' + ' '.join(cor.get('states_words', names)) + '\n'))
    if cor.get('dup') == 'states':
        block.append((TRUE, 'states ' + ' '.join(names) + '\n'))
    if not cor.get('drop_initial'):
        block.append((TRUE, 'initial ' + ' '.join(cor.get('initial_words', [names[0]])) + '\n'))
    if cor.get('dup') == 'initial':
        block.append((TRUE, 'initial %s\n' % names[0]))
    syms = [a for a in labels if a != eps]
    block.append((lay.symbols_decl if not cor.get('force_symbols') else TRUE, 'input_symbols ' + ' '.join(syms) + '\n'))
    if cor.get('dup') == 'input_symbols':
        block.append((TRUE, 'input_symbols ' + ' '.join(syms) + '\n'))
    if eps is not None:
        block.append((lay.eps_decl if eps in ('_', 'ε') and not cor.get('force_eps') else TRUE, 'epsilon %s\n' % eps))
        if cor.get('dup') == 'epsilon':
            block.append((TRUE, 'epsilon %s\n' % eps))
    fin_line = subsets_line('final', [(q, F[q]) for q in names])
    fin_guard = d.or_(lay.final_decl, d.any_(F[q] for q in names))
    if cor.get('dup') == 'final':
        fin_guard = TRUE
    fin_in_block = [(d.and_(fin_guard, lay.final_last ^ 1), fin_line)]
    fin_at_end = [(d.and_(fin_guard, lay.final_last), fin_line)]
    if cor.get('dup') == 'final':
        fin_at_end.append((TRUE, fin_line))
    block += fin_in_block
    trans = []
    skip = cor.get('skip')        # literal-valued {(p, a, q): lit}: transition omitted when lit
    for p in names:
        for q in names:
            its = []
            for a in labels:
                t = T.get((p, a, q), FALSE)
                if skip and (p, a, q) in skip:
                    t = d.and_(t, skip[(p, a, q)] ^ 1)
                its.append((a, t))
            anyt = d.any_(t for _, t in its)
            if anyt == FALSE:
                continue
            trans.append((d.and_(lay.multi, anyt), subsets_line('%s %s' % (p, q), its)))
            for a, t in its:
                trans.append((d.and_(lay.multi ^ 1, t), '  %s   %s %s \n' % (p, q, a)))
    for g, line in cor.get('extra', []):
        trans.append((g, line))
    comment = [(lay.comments, '% a comment line\n'), (lay.comments, '\n'), (lay.comments, '   % indented comment\n')]
    pieces = [(d.and_(lay.block_first, g), s) for g, s in block] + comment + trans + \
             [(d.and_(lay.block_first ^ 1, g), s) for g, s in block] + fin_at_end
    return L.GStr([(g, s) for g, s in pieces if g != FALSE])


def described(names, labels, T, F, lay, eps=None):
    """the automaton a well-formed rendering describes: ({state: lit}, {symbol: lit}, epsilon alternatives)"""
    d = E.dag
    used_q = {q: FALSE for q in names}
    used_q[names[0]] = TRUE
    used_a = {a: FALSE for a in labels}
    for (p, a, q), t in T.items():
        used_q[p] = d.or_(used_q[p], t)
        used_q[q] = d.or_(used_q[q], t)
        used_a[a] = d.or_(used_a[a], t)
    for q in names:
        used_q[q] = d.or_(used_q[q], F[q])
    Q = {q: d.or_(lay.states_decl, used_q[q]) for q in names}
    if eps is None:
        return Q, {a: d.or_(lay.symbols_decl, used_a[a]) for a in labels}, None
    declared = TRUE if eps not in ('_', 'ε') else lay.eps_decl
    # documented default: the declared symbol, else 'ε' if it occurs in a label, else '_'
    if eps == '_':
        eps_alts = {'_': TRUE}
        is_eps = TRUE
    elif eps == 'ε':
        is_eps = d.or_(declared, used_a[eps])
        eps_alts = {'ε': is_eps, '_': is_eps ^ 1}
    else:
        is_eps = TRUE
        eps_alts = {eps: TRUE}
    Sig = {a: d.or_(lay.symbols_decl, used_a[a]) for a in labels if a != eps}
    return Q, Sig, eps_alts


def dfa_result_bad(view, names, syms, Dm_T, F, Qexp, Sexp):
    """literal: the returned DFA differs from the described one"""
    d = E.dag
    bad = []
    for q in set(names) | set(view.names):
        bad.append(d.iff(view.qpres.get(q, FALSE), Qexp.get(q, FALSE)) ^ 1)
        bad.append(d.iff(view.F.get(q, FALSE), F.get(q, FALSE)) ^ 1)
    bad.append(view.q0.get(names[0], FALSE) ^ 1)
    for a in set(syms) | set(view.syms):
        bad.append(d.iff(view.spres.get(a, FALSE), Sexp.get(a, FALSE)) ^ 1)
    keys = set((p, a) for (p, a, q) in Dm_T) | set(view.dl)
    for (p, a) in keys:
        for q in set(names) | set(view.dl.get((p, a), {})):
            bad.append(d.iff(view.dl.get((p, a), {}).get(q, FALSE), Dm_T.get((p, a, q), FALSE)) ^ 1)
    return d.any_(bad)


def dfa_invalid(view):
    """reference class invariant of a DFA object read through its view: q0 in Q, F <= Q, delta total on Q x Sigma into Q"""
    d = E.dag
    bad = [d.any_(d.and_(g, view.qpres.get(q, FALSE) ^ 1) for q, g in view.q0.items())]
    bad += [d.and_(view.F[q], view.qpres[q] ^ 1) for q in view.names]
    bad += [g for g in [d.any_([FALSE])]]
    for (p, a), tg in view.dl.items():
        kp = d.any_(tg.values())
        bad.append(d.and_(kp, d.or_(view.qpres.get(p, FALSE) ^ 1, view.spres.get(a, FALSE) ^ 1)))
        bad += [d.and_(g, view.qpres.get(t, FALSE) ^ 1) for t, g in tg.items()]
    for q in view.names:
        for a in view.syms:
            bad.append(d.all_([view.qpres[q], view.spres[a], d.any_(view.dl.get((q, a), {}).values()) ^ 1]))
    return d.any_(bad)


def nfa_invalid(view):
    d = E.dag
    bad = [d.any_(d.and_(g, view.qpres.get(q, FALSE) ^ 1) for q, g in view.q0.items())]
    bad += [d.and_(view.F[q], view.qpres[q] ^ 1) for q in view.names]
    for (p, a, q), t in view.T.items():
        is_eps = view.eps.get(a, FALSE)
        bad.append(d.and_(t, d.any_([view.qpres.get(p, FALSE) ^ 1, view.qpres.get(q, FALSE) ^ 1,
                                     d.and_(view.spres.get(a, FALSE) ^ 1, is_eps ^ 1)])))
    bad += [d.and_(g, view.spres.get(e, FALSE)) for e, g in view.eps.items()]
    return d.any_(bad)


# ------------------------------------------------------------------------------------------------ DFA
def job_dfa(job, n, k):
    from gambatools.dfa_algorithms import parse_dfa
    from .oracles import DfaView
    job.functions('dfa_algorithms', ['parse_dfa', 'DFABuilder', 'automaton_to_dfa'])
    job.functions('automaton_algorithms', ['AutomatonParser', 'AutomatonBuilder'])
    job.functions('automaton', ['Automaton'])
    job.functions('dfa', ['DFA'])
    d = E.dag
    c.set_exhaustive(15)
    Dm, names, syms = c.sym_dfa(n, k)
    v0 = DfaView(Dm, names, syms)
    T = {(p, a, q): g for (p, a), tg in v0.dl.items() for q, g in tg.items()}
    F = v0.F
    lay = Layout()
    lay.eps_decl = FALSE
    job.inputs['D'] = Dm
    job.decoders['D'] = v0.to_json
    job.inputs['layout'] = None
    job.decoders['layout'] = lay.json

    def text_of(rope):
        return lambda mv: rope_text(rope, mv)

    # ---- well-formed: every layout
    rope = render(names, syms, T, F, lay)
    rp = ('dfa_text', {'text': text_of(rope), 'D': v0.to_json, 'expect': 'same'})
    res0, failed0, kinds = attempt(parse_dfa, rope)
    job.must_reach('layout with omitted declarations is reachable', d.and_(lay.states_decl ^ 1, lay.symbols_decl ^ 1))

    # ---- corruptions: each must be rejected (on the region where the text really is malformed); any object that is
    # nevertheless returned must satisfy the class invariant
    p_ = c.choice(names, 'cor_p')
    a_ = c.choice(syms, 'cor_a')
    q_ = c.choice(names, 'cor_q')
    job.inputs['fault_at'] = None
    job.decoders['fault_at'] = lambda mv: [c.conc(p_, mv), c.conc(a_, mv), c.conc(q_, mv)]
    pm, am, qm = c.alt_map(p_), c.alt_map(a_), c.alt_map(q_)

    def at(p, a, q):
        return d.all_([pm[p], am[a], qm[q]])
    cases = []
    # (1) a second transition for (p, a) with another target
    extra = [(at(p, a, q), '%s %s %s\n' % (p, q, a)) for p in names for a in syms for q in names]
    region = d.any_(d.and_(at(p, a, q), T.get((p, a, q), FALSE) ^ 1) for p in names for a in syms for q in names)
    cases.append(('a second transition for one (state, symbol) pair', {'extra': extra}, region))
    # (2) one transition missing while state and symbol are still part of the description
    skip = {(p, a, q): d.and_(pm[p], am[a]) for p in names for a in syms for q in names}
    cases.append(('a missing transition (state and symbol declared)', {'skip': skip, 'force_states': True, 'force_symbols': True}, TRUE))
    # (3) undeclared state
    cases.append(('a transition to an undeclared state', {'extra': [(at(p, a, names[0]), '%s zz %s\n' % (p, a)) for p in names for a in syms],
                                                          'force_states': True, 'skip': skip}, TRUE))
    # (4) undeclared symbol
    cases.append(('a transition with an undeclared symbol', {'extra': [(pm[p], '%s %s z\n' % (p, p)) for p in names], 'force_symbols': True}, TRUE))
    # (5) initial states
    cases.append(('no initial state', {'drop_initial': True}, TRUE))
    if n > 1:
        cases.append(('two initial states', {'initial_words': names[:2]}, TRUE))
        cases.append(('initial state repeated in one declaration', {'initial_words': [names[0], names[0]]}, TRUE))
    # (6) repeated declarations
    for kw in ('states', 'initial', 'final', 'input_symbols'):
        cases.append(('declaration %r given twice' % kw, {'dup': kw, 'force_states': True, 'force_symbols': True}, TRUE))
    # (7) incomplete transition lines
    cases.append(('a transition line with two tokens', {'extra': [(d.and_(pm[p], qm[q]), '%s %s\n' % (p, q)) for p in names for q in names]}, TRUE))
    cases.append(('a transition line with one token', {'extra': [(pm[p], '%s\n' % p) for p in names]}, TRUE))
    cases.append(('empty states declaration', {'states_words': [], 'force_states': True}, TRUE))
    runs = []
    for label, cor, region in cases:
        rope_c = render(names, syms, T, F, lay, corrupt=cor)
        res, failed, kinds = attempt(parse_dfa, rope_c)
        runs.append((label, region, rope_c, res, failed))
    job.lifted()
    failed = failed0()
    job.oblige('well-formed description (any layout) is accepted', failed, replay=rp)
    if res0 is not None:
        Qexp, Sexp, _ = described(names, syms, T, F, lay)
        job.oblige('parse_dfa returns exactly the described DFA (states, alphabet, transitions, initial, accepting)',
                   d.and_(failed ^ 1, dfa_result_bad(DfaView(res0, None, None, prune=False), names, syms, T, F, Qexp, Sexp)), replay=rp)
    for label, region, rope_c, res, failed in runs:
        failed = failed()
        rpc = ('dfa_text', {'text': text_of(rope_c), 'D': v0.to_json, 'expect': 'error'})
        job.oblige('rejected: %s' % label, d.and_(region, failed ^ 1), replay=rpc)
        if res is not None:
            rpv = ('dfa_text', {'text': text_of(rope_c), 'D': v0.to_json, 'expect': 'valid'})
            job.oblige('any object returned for a text with %s satisfies the DFA invariant' % label,
                       d.and_(failed ^ 1, dfa_invalid(DfaView(res, None, None, prune=False))), replay=rpv)
    job.failures_as_obligations(replay=rp)
    job.sample_replays = 3
    return job.solve()


# ------------------------------------------------------------------------------------------------ NFA
def job_nfa(job, n, k, eps):
    from gambatools.nfa_algorithms import parse_nfa
    from .oracles import NfaView
    job.functions('nfa_algorithms', ['parse_nfa', 'NFABuilder', 'automaton_to_nfa'])
    job.functions('automaton_algorithms', ['AutomatonParser', 'AutomatonBuilder'])
    job.functions('nfa', ['NFA'])
    d = E.dag
    c.set_exhaustive(15)
    N, names, syms = c.sym_nfa(n, k, eps=eps, partial=False)
    v0 = NfaView(N, names, syms)
    labels = syms + [eps]
    T = {(p, a, q): v0.t(p, a, q) for p in names for a in labels for q in names}
    F = v0.F
    lay = Layout()
    job.inputs['N'] = N
    job.decoders['N'] = v0.to_json
    job.inputs['layout'] = None
    job.decoders['layout'] = lay.json

    def text_of(rope):
        return lambda mv: rope_text(rope, mv)
    rope = render(names, labels, T, F, lay, eps=eps)
    rp = ('nfa_text', {'text': text_of(rope), 'N': v0.to_json, 'expect': 'same'})
    res0, failed0, kinds = attempt(parse_nfa, rope)

    def wellformed():
        failed = failed0()
        job.oblige('well-formed description (any layout) is accepted', failed, replay=rp)
        if res0 is None:
            return
        Qexp, Sexp, eps_alts = described(names, labels, T, F, lay, eps=eps)
        rv = NfaView(res0, None, None)
        bad = []
        for q in set(names) | set(rv.names):
            bad.append(d.iff(rv.qpres.get(q, FALSE), Qexp.get(q, FALSE)) ^ 1)
            bad.append(d.iff(rv.F.get(q, FALSE), F.get(q, FALSE)) ^ 1)
        bad.append(rv.q0.get(names[0], FALSE) ^ 1)
        for a in set(syms) | set(rv.syms):
            # when 'ε' is not recognised as the epsilon symbol (undeclared and unused) it cannot occur at all
            bad.append(d.iff(rv.spres.get(a, FALSE), Sexp.get(a, FALSE)) ^ 1)
        for e in set(eps_alts) | set(rv.eps):
            bad.append(d.iff(rv.eps.get(e, FALSE), eps_alts.get(e, FALSE)) ^ 1)
        for key in set(T) | set(rv.T):
            bad.append(d.iff(rv.T.get(key, FALSE), T.get(key, FALSE)) ^ 1)
        job.oblige('parse_nfa returns exactly the described NFA (states, alphabet, epsilon, transitions, initial, accepting)',
                   d.and_(failed ^ 1, d.any_(bad)), replay=rp)
    job.must_reach('layout with omitted declarations is reachable', d.all_([lay.states_decl ^ 1, lay.symbols_decl ^ 1, lay.multi]))
    p_ = c.choice(names, 'cor_p')
    q_ = c.choice(names, 'cor_q')
    pm, qm = c.alt_map(p_), c.alt_map(q_)
    job.inputs['fault_at'] = None
    job.decoders['fault_at'] = lambda mv: [c.conc(p_, mv), c.conc(q_, mv)]
    cases = [
        ('a transition to an undeclared state', {'extra': [(pm[p], '%s zz %s\n' % (p, labels[0])) for p in names], 'force_states': True}, TRUE),
        ('a transition from an undeclared state', {'extra': [(pm[p], 'zz %s %s\n' % (p, eps)) for p in names], 'force_states': True}, TRUE),
        ('a transition with an undeclared symbol', {'extra': [(pm[p], '%s %s z\n' % (p, p)) for p in names], 'force_symbols': True, 'force_eps': True}, TRUE),
        ('no initial state', {'drop_initial': True}, TRUE),
        ('a transition line with two tokens', {'extra': [(d.and_(pm[p], qm[q]), '%s %s\n' % (p, q)) for p in names for q in names]}, TRUE),
        ('a transition line with one token', {'extra': [(pm[p], '%s\n' % p) for p in names]}, TRUE),
        ('empty states declaration', {'states_words': [], 'force_states': True}, TRUE),
        ('a state listed twice in the states declaration', {'states_words': names + [names[-1]], 'force_states': True}, TRUE),
    ]
    if n > 1:
        cases.append(('two initial states', {'initial_words': names[:2]}, TRUE))
    for kw in ('states', 'initial', 'final', 'input_symbols', 'epsilon'):
        cases.append(('declaration %r given twice' % kw, {'dup': kw, 'force_states': True, 'force_symbols': True, 'force_eps': True}, TRUE))
    runs = []
    for label, cor, region in cases:
        rope_c = render(names, labels, T, F, lay, eps=eps, corrupt=cor)
        res, failed, kinds = attempt(parse_nfa, rope_c)
        runs.append((label, region, rope_c, res, failed))
    job.lifted()
    wellformed()
    for label, region, rope_c, res, failed in runs:
        failed = failed()
        rpc = ('nfa_text', {'text': text_of(rope_c), 'N': v0.to_json, 'expect': 'error'})
        job.oblige('rejected: %s' % label, d.and_(region, failed ^ 1), replay=rpc)
        if res is not None:
            rpv = ('nfa_text', {'text': text_of(rope_c), 'N': v0.to_json, 'expect': 'valid'})
            job.oblige('any object returned for a text with %s satisfies the NFA invariant' % label,
                       d.and_(failed ^ 1, nfa_invalid(NfaView(res, None, None))), replay=rpv)
    job.failures_as_obligations(replay=rp)
    job.sample_replays = 3
    return job.solve()


# ------------------------------------------------------------------------------------------------ PDA (symbolic)
def job_pda(job, states, eps, seed, nt=7):
    """symbolic PDA description: a seeded sample of nt candidate transitions (p, a, u, q, v) over the given state names
    (which may look like keywords of other formats), input symbol a, stack symbol x; every candidate present or not;
    accepting set symbolic; declarations (states, input_symbols, stack_symbols, epsilon) present or omitted; block first/last;
    one label per line or all labels of a state pair on one line"""
    import random
    from gambatools.pda_algorithms import parse_pda
    from .pda_sym import read_pda
    from .oracles import field
    job.functions('pda_algorithms', ['parse_pda', 'PDABuilder', 'automaton_to_pda'])
    job.functions('automaton_algorithms', ['AutomatonParser', 'AutomatonBuilder'])
    job.functions('pda', ['PDA'])
    d = E.dag
    c.set_exhaustive(16)
    rng = random.Random(seed)
    allc = [(p, a, u, q, v) for p in states for a in ('a', eps) for u in ('x', eps) for q in states for v in ('x', eps)]
    cands = rng.sample(allc, nt)
    tbit = {t: E.fresh('t_%s' % '_'.join(x or 'e' for x in t)) for t in cands}
    F = {q: E.fresh('f_%s' % q) for q in states}
    lay = Layout()
    stack_decl = E.fresh('lay_stack')
    dec = lambda mv: {'states': states, 'epsilon': eps, 'transitions': [list(t) for t in cands if mv(tbit[t])], 'F': [q for q in states if mv(F[q])],
                      'layout': dict(lay.json(mv), stack_symbols=bool(mv(stack_decl)))}
    job.inputs['P'] = None
    job.decoders['P'] = dec
    # the text
    block = [(lay.states_decl, 'states ' + ' '.join(states) + '\n'), (TRUE, 'initial %s\n' % states[0]),
             (lay.symbols_decl, 'input_symbols a\n'), (stack_decl, 'stack_symbols x\n'), (lay.eps_decl, 'epsilon %s\n' % eps)]
    fin_line = subsets_line('final', [(q, F[q]) for q in states])
    block.append((d.or_(lay.final_decl, d.any_(F.values())), fin_line))
    trans = []
    for p in states:
        for q in states:
            its = [('%s,%s%s' % (a, u, v), tbit[(p1, a, u, q1, v)]) for (p1, a, u, q1, v) in cands if p1 == p and q1 == q]
            if not its:
                continue
            trans.append((d.and_(lay.multi, d.any_(t for _, t in its)), subsets_line('%s %s' % (p, q), its)))
            for lab, t in its:
                trans.append((d.and_(lay.multi ^ 1, t), '%s %s %s\n' % (p, q, lab)))
    pieces = [(d.and_(lay.block_first, g), s_) for g, s_ in block] + [(lay.comments, '% comment\n')] + trans + \
             [(d.and_(lay.block_first ^ 1, g), s_) for g, s_ in block]
    rope = L.GStr([(g, s_) for g, s_ in pieces if g != FALSE])
    rp = ('pda_text', {'text': lambda mv: rope_text(rope, mv), 'expect': 'same'})
    res, failed_f, kinds = attempt(parse_pda, rope)
    job.lifted()
    failed = failed_f()
    job.oblige('well-formed PDA description (any layout) is accepted', failed, replay=rp)
    if res is not None:
        Q2, t2, F2, q02, Gam2, _ = read_pda(res)
        eps2 = {str(v): g for g, v in E.alts(field(res, 'epsilon'))}
        Sig2 = {str(k_): g for k_, g in L._setview(field(res, 'Sigma')).m.items()}
        used_q = {q: d.or_(F[q], TRUE if q == states[0] else FALSE) for q in states}
        uses_eps = FALSE        # the character eps occurs in some label
        used_in, used_st = FALSE, FALSE
        for t, b in tbit.items():
            used_q[t[0]] = d.or_(used_q[t[0]], b)
            used_q[t[3]] = d.or_(used_q[t[3]], b)
            if eps in (t[1], t[2], t[4]):
                uses_eps = d.or_(uses_eps, b)
        # documented default: declared symbol, else 'ε' if it occurs in a label, else '_'
        if eps == '_':
            is_eps = TRUE
        else:
            is_eps = d.or_(lay.eps_decl, uses_eps)
        eps_exp = {eps: is_eps}
        if eps != '_':
            eps_exp['_'] = is_eps ^ 1
        Sig_exp, Gam_exp = {}, {}
        for t, b in tbit.items():
            p1, a, u, q1, v = t
            # input symbol of the label: a, or the epsilon character taken literally when it is not recognised as epsilon
            for sym in {a}:
                lit = b if sym != eps else d.and_(b, is_eps ^ 1)
                Sig_exp[sym] = d.or_(Sig_exp.get(sym, FALSE), lit)
            for sym in {u, v}:
                lit = b if sym != eps else d.and_(b, is_eps ^ 1)
                Gam_exp[sym] = d.or_(Gam_exp.get(sym, FALSE), lit)
        Sig_exp = {k_: d.or_(d.and_(lay.symbols_decl, TRUE if k_ == 'a' else FALSE), d.and_(lay.symbols_decl ^ 1, g)) for k_, g in dict(Sig_exp, a=Sig_exp.get('a', FALSE)).items()}
        Gam_exp = {k_: d.or_(d.and_(stack_decl, TRUE if k_ == 'x' else FALSE), d.and_(stack_decl ^ 1, g)) for k_, g in dict(Gam_exp, x=Gam_exp.get('x', FALSE)).items()}
        # region where the description is well-formed: a declared alphabet must contain every used symbol
        wf = d.all_([d.or_(lay.symbols_decl ^ 1, d.or_(is_eps, d.any_(b for t, b in tbit.items() if t[1] == eps) ^ 1)),
                     d.or_(stack_decl ^ 1, d.or_(is_eps, d.any_(b for t, b in tbit.items() if eps in (t[2], t[4])) ^ 1))])
        E.assumptions.append(wf)
        bad = []
        for q in set(states) | set(Q2):
            bad.append(d.iff(Q2.get(q, FALSE), d.or_(lay.states_decl, used_q.get(q, FALSE)) if q in states else FALSE) ^ 1)
            bad.append(d.iff(F2.get(q, FALSE), F.get(q, FALSE)) ^ 1)
        bad.append(q02.get(states[0], FALSE) ^ 1)
        for e in set(eps_exp) | set(eps2):
            bad.append(d.iff(eps2.get(e, FALSE), eps_exp.get(e, FALSE)) ^ 1)
        for a in set(Sig_exp) | set(Sig2):
            bad.append(d.iff(Sig2.get(a, FALSE), Sig_exp.get(a, FALSE)) ^ 1)
        for a in set(Gam_exp) | set(Gam2):
            bad.append(d.iff(Gam2.get(a, FALSE), Gam_exp.get(a, FALSE)) ^ 1)
        after = {}
        for lit, t in t2:
            after[t] = d.or_(after.get(t, FALSE), lit)
        for t in set(tbit) | set(after):
            bad.append(d.iff(after.get(t, FALSE), tbit.get(t, FALSE)) ^ 1)
        job.oblige('parse_pda returns exactly the described PDA (states, alphabets, epsilon, transitions, initial, accepting)',
                   d.and_(failed ^ 1, d.any_(bad)), replay=rp)
        job.must_reach('epsilon undeclared and used only on the stack side', d.all_([lay.eps_decl ^ 1, uses_eps]) if eps != '_' else TRUE)
    job.failures_as_obligations(replay=rp)
    job.sample_replays = 3
    return job.solve()


# ------------------------------------------------------------------------------------------------ TM (symbolic)
def job_tm(job, blank, tstep=3):
    """symbolic TM description: working state s, accept t, reject r, tape symbols a and the blank; each of the two table
    entries absent or one of a sub-family of targets; declarations (states, tape_symbols, input_symbols, blank) present or
    omitted; block first / last; blank '_' or the box character (default rule: declared, else the box if it occurs, else _)"""
    from gambatools.tm_algorithms import parse_tm
    from .oracles import field, dict_items
    job.functions('tm_algorithms', ['parse_tm', 'TMBuilder', 'automaton_to_tm'])
    job.functions('automaton_algorithms', ['AutomatonParser', 'AutomatonBuilder'])
    job.functions('tm', ['TM'])
    d = E.dag
    c.set_exhaustive(14, fold=False)
    states, gamma = ['s', 't', 'r'], ['a', blank]
    targets = [(q, b, dr) for q in states for b in gamma for dr in 'LR']
    entries = {}
    for i, a in enumerate(gamma):
        pres = E.fresh('e_s_%s' % a)
        tg = [t for j, t in enumerate(targets) if (j + i) % tstep == 0]
        val = c.choice(tg, 't_s_%s' % a)
        entries[('s', a)] = {t: d.and_(pres, g) for t, g in c.alt_map(val).items()}
    lay = Layout()
    tape_decl, blank_decl = E.fresh('lay_tape'), E.fresh('lay_blank')
    dec = lambda mv: {'blank': blank, 'delta': [[p, a, *t] for (p, a), alts in entries.items() for t, g in alts.items() if mv(g)],
                      'layout': dict(lay.json(mv), tape_symbols=bool(mv(tape_decl)), blank_decl=bool(mv(blank_decl)))}
    job.inputs['T'] = None
    job.decoders['T'] = dec
    block = [(lay.states_decl, 'states s t r\n'), (TRUE, 'initial s\n'), (TRUE, 'accept t\n'), (TRUE, 'reject r\n'),
             (lay.symbols_decl, 'input_symbols a\n'), (tape_decl, 'tape_symbols a %s\n' % blank), (blank_decl, 'blank %s\n' % blank)]
    trans = []
    for q in states:
        its = [('%s%s,%s' % (a, b, dr), g) for (p, a), alts in entries.items() for (q1, b, dr), g in alts.items() if q1 == q]
        if its:
            trans.append((d.and_(lay.multi, d.any_(g for _, g in its)), subsets_line('s %s' % q, its)))
            trans += [(d.and_(lay.multi ^ 1, g), 's %s %s\n' % (q, lab)) for lab, g in its]
    pieces = [(d.and_(lay.block_first, g), s_) for g, s_ in block] + [(lay.comments, '% comment\n')] + trans + \
             [(d.and_(lay.block_first ^ 1, g), s_) for g, s_ in block]
    rope = L.GStr([(g, s_) for g, s_ in pieces if g != FALSE])
    rp = ('tm_text', {'text': lambda mv: rope_text(rope, mv), 'expect': 'same'})
    res, failed_f, kinds = attempt(parse_tm, rope)
    job.lifted()
    failed = failed_f()
    # expectations by the documented defaults
    uses_blank_char = d.any_(g for (p, a), alts in entries.items() for (q, b, dr), g in alts.items() if blank in (a, b))
    is_blank = TRUE if blank == '_' else d.or_(blank_decl, uses_blank_char)
    blank_exp = {blank: is_blank}
    if blank != '_':
        blank_exp['_'] = is_blank ^ 1
    used = {x: d.any_(g for (p, a), alts in entries.items() for (q, b, dr), g in alts.items() if x in (a, b)) for x in gamma}
    tape = {x: d.or_(tape_decl, d.and_(tape_decl ^ 1, used[x])) for x in gamma}            # before the blank is added
    Gam_exp = {x: d.or_(tape.get(x, FALSE), blank_exp.get(x, FALSE)) for x in set(gamma) | {'_'}}
    Sig_exp = {x: d.or_(d.and_(lay.symbols_decl, TRUE if x == 'a' else FALSE), d.all_([lay.symbols_decl ^ 1, tape.get(x, FALSE), blank_exp.get(x, FALSE) ^ 1]))
               for x in set(gamma) | {'_'}}
    # well-formed region: a declared input alphabet must lie inside the (declared or derived) tape alphabet
    E.assumptions.append(d.or_(lay.symbols_decl ^ 1, tape['a']))
    job.oblige('well-formed TM description (any layout) is accepted', failed, replay=rp)
    if res is not None:
        bad = []
        m = lambda name: {str(k_): g for k_, g in L._setview(field(res, name)).m.items()}
        Q2, S2, G2 = m('Q'), m('Sigma'), m('Gamma')
        bad += [d.iff(Q2.get(x, FALSE), TRUE if x in states else FALSE) ^ 1 for x in set(states) | set(Q2)]
        bad += [d.iff(S2.get(x, FALSE), Sig_exp.get(x, FALSE)) ^ 1 for x in set(Sig_exp) | set(S2)]
        bad += [d.iff(G2.get(x, FALSE), Gam_exp.get(x, FALSE)) ^ 1 for x in set(Gam_exp) | set(G2)]
        for name, exp in (('q0', 's'), ('q_accept', 't'), ('q_reject', 'r')):
            bad += [d.and_(g, TRUE if str(v) != exp else FALSE) for g, v in E.alts(field(res, name))]
        b2 = {str(v): g for g, v in E.alts(field(res, 'blank'))}
        bad += [d.iff(b2.get(x, FALSE), blank_exp.get(x, FALSE)) ^ 1 for x in set(b2) | set(blank_exp)]
        after = {}
        for key, (pres, val) in dict_items(field(res, 'delta')).items():
            for g, tgt in E.inst(val):
                if isinstance(tgt, tuple):
                    k_ = (tuple(map(str, key)), tuple(map(str, tgt)))
                    after[k_] = d.or_(after.get(k_, FALSE), d.and_(pres, g))
        before = {((p, a), t): g for (p, a), alts in entries.items() for t, g in alts.items()}
        bad += [d.iff(before.get(k_, FALSE), after.get(k_, FALSE)) ^ 1 for k_ in set(before) | set(after)]
        job.oblige('parse_tm returns exactly the described machine (states, alphabets, blank, table, initial / accept / reject states)',
                   d.and_(failed ^ 1, d.any_(bad)), replay=rp)
    job.failures_as_obligations(replay=rp)
    job.sample_replays = 3
    return job.solve()


# ------------------------------------------------------------------------------------------------ PDA / TM labels
PDA_TEXT = ['initial p\n', 'final q\n', 'p p a,_x\n', 'p q _,__ b,x_\n', 'q q b,x_\n']
TM_TEXT = ['initial s\n', 'accept t\n', 'reject r\n', 's s aa,R __,L\n', 's t b_,R\n']


def job_labels(job, kind, history=False):
    """PDA labels 'a,uv' and TM labels 'ab,D': a concrete machine; one symbolic line is replaced / followed by a label of
    the wrong length -> must be rejected; the unchanged text must give exactly the machine written"""
    from gambatools.pda_algorithms import parse_pda
    from gambatools.tm_algorithms import parse_tm
    job.functions('pda_algorithms', ['parse_pda', 'PDABuilder'])
    job.functions('tm_algorithms', ['parse_tm', 'TMBuilder'])
    d = E.dag
    base = PDA_TEXT if kind == 'pda' else TM_TEXT
    parse = parse_pda if kind == 'pda' else parse_tm
    # (the last one of each list has the right length but a letter / digit where the comma belongs)
    badlabels = ['a', 'a,', 'a,x', 'a,xyz', ',xy', 'axy', 'a1x_'] if kind == 'pda' else ['a', 'ab', 'ab,', 'b,R', 'abc,R', 'abRR']
    if history:
        # call history: another parser of the family has seen these very strings before as LEGAL multi-character input
        # symbols of a DFA (a verdict remembered per label, not per format, would let them pass here)
        from gambatools.dfa_algorithms import parse_dfa
        import re as _re
        legal = [l for l in badlabels if _re.fullmatch(r'\w+', l)]
        prior = 'initial z\nfinal z\n' + ''.join('z z %s\n' % l for l in legal)
        job.prior_text = prior
        try:
            parse_dfa(prior)
        except L.LiftError:
            raise
        except Exception:
            pass
        del E.errors[:]
        E.dead = FALSE
    lab = c.choice(badlabels, 'badlabel')
    where = c.choice([0, 1, 2], 'where')
    job.inputs['bad_label'] = lab
    job.inputs['position'] = where
    wm = c.alt_map(where)
    first, second = ('p', 'q') if kind == 'pda' else ('s', 't')
    # position 0: own line before the transitions; 1: appended to a multi-label line; 2: own line at the end
    line_alts = E.mk([(g, '%s %s %s\n' % (first, second, l)) for l, g in c.alt_map(lab).items()])
    multi = E.mk([(g, base[3][:-1] + ' ' + l + '\n') for l, g in c.alt_map(lab).items()])
    pieces = [(TRUE, s) for s in base[:3]] + [(wm[0], line_alts), (wm[1] ^ 1, base[3]), (wm[1], multi), (TRUE, base[4]), (wm[2], line_alts)]
    rope = L.GStr(pieces)
    rp = ('label_text', {'machine': kind, 'text': lambda mv: rope_text(rope, mv), 'expect': 'error', 'prior_dfa_text': getattr(job, 'prior_text', None)})
    res_b, failed_b, kinds = attempt(parse, rope)
    good = L.GStr([(TRUE, s) for s in base])
    rpg = ('label_text', {'machine': kind, 'text': ''.join(base), 'expect': 'same'})
    res, failed, kinds = attempt(parse, good)
    job.lifted()
    job.oblige('%s description with a label of the wrong length is rejected' % kind.upper(), failed_b() ^ 1, replay=rp)
    job.oblige('well-formed %s description is accepted' % kind.upper(), failed(), replay=rpg)
    if res is not None and not isinstance(res, L.U):
        exp = nat.expected_of_text(kind)
        got = nat.summary_of(kind, c.conc(res, c.single_model({}), native_cls=False))
        job.oblige('well-formed %s description yields exactly the machine written' % kind.upper(), TRUE if got != exp else FALSE, replay=rpg)
        job.result['notes'].append('parsed: %r' % (got,))
    job.failures_as_obligations(replay=rpg)
    job.sample_replays = 3
    return job.solve()


def jobs(tier):
    J = []

    def add(name, fn, timeout=None, **params):
        J.append({'name': name, 'fn': fn, 'params': params, **({'timeout': timeout} if timeout else {})})
    q = tier == 'quick'
    tmo = 600 if q else 3000
    add('labels_pda_after_dfa', job_labels, kind='pda', history=True, timeout=tmo)
    add('labels_tm_after_dfa', job_labels, kind='tm', history=True, timeout=tmo)
    add('dfa_n2_k2', job_dfa, n=2, k=2, timeout=tmo)
    add('dfa_n2_k1', job_dfa, n=2, k=1, timeout=tmo)
    add('dfa_n3_k1', job_dfa, n=3, k=1, timeout=tmo)
    add('dfa_n1_k2', job_dfa, n=1, k=2, timeout=tmo)
    add('nfa_n2_k1_us', job_nfa, n=2, k=1, eps='_', timeout=tmo)
    add('nfa_n2_k1_unicode', job_nfa, n=2, k=1, eps='ε', timeout=tmo)
    add('nfa_n2_k1_e', job_nfa, n=2, k=1, eps='e', timeout=tmo)
    add('nfa_n2_k2_us', job_nfa, n=2, k=2, eps='_', timeout=tmo)
    add('pda_pq_us_s1', job_pda, states=['p', 'q'], eps='_', seed=1, timeout=tmo)
    add('pda_pq_unicode_s2', job_pda, states=['p', 'q'], eps='ε', seed=2, timeout=tmo)
    add('pda_pq_unicode_s3', job_pda, states=['p', 'q'], eps='ε', seed=3, timeout=tmo)
    add('pda_keywordlike_states_s4', job_pda, states=['accept', 'blank'], eps='_', seed=4, timeout=tmo)
    add('pda_keywordlike_states_s5', job_pda, states=['reject', 'tape_symbols'], eps='ε', seed=5, timeout=tmo)
    add('tm_us', job_tm, blank='_', timeout=tmo)
    add('tm_box', job_tm, blank='□', timeout=tmo)
    add('tm_box_t2', job_tm, blank='□', tstep=2, timeout=tmo)
    add('pda_labels', job_labels, kind='pda', timeout=tmo)
    add('tm_labels', job_labels, kind='tm', timeout=tmo)
    # cheap enough for the quick tier as well
    add('dfa_n3_k2', job_dfa, n=3, k=2, timeout=tmo)
    add('nfa_n3_k1_unicode', job_nfa, n=3, k=1, eps='ε', timeout=tmo)
    add('nfa_n2_k2_unicode', job_nfa, n=2, k=2, eps='ε', timeout=tmo)
    if not q:
        add('pda_pq_unicode_s6_nt9', job_pda, states=['p', 'q'], eps='ε', seed=6, nt=9, timeout=tmo)
        add('pda_keywordlike_states_s7_nt9', job_pda, states=['tape_symbols', 'accept'], eps='_', seed=7, nt=9, timeout=tmo)
        add('nfa_n3_k2_us', job_nfa, n=3, k=2, eps='_', timeout=tmo)
    return J


# ------------------------------------------------------------------ native replay
def _replay_text(parse, rp, summary):
    try:
        obj = parse(rp['text'])
    except Exception as e:
        # an exception violates only the expectation 'same'; for 'error' it is the required outcome, for 'valid' (whatever
        # is returned satisfies the invariant) nothing was returned
        return rp['expect'] == 'same', {'raised': repr(e), 'text': rp['text']}
    if rp['expect'] == 'error':
        return True, {'accepted although malformed': summary(obj), 'text': rp['text']}
    return None, obj


def _replay_dfa_text(rp):
    from gambatools.dfa_algorithms import parse_dfa
    r, obj = _replay_text(parse_dfa, rp, nat.dfa_json_of)
    if r is not None:
        return r, obj
    got = nat.dfa_json_of(obj)
    if rp['expect'] == 'valid':
        ok = got['q0'] in got['Q'] and set(got['F']) <= set(got['Q']) and all(p in got['Q'] and a in got['Sigma'] and t in got['Q'] for p, a, t in got['delta']) \
            and {(p, a) for p, a, t in got['delta']} == {(p, a) for p in got['Q'] for a in got['Sigma']}
        return not ok, {'returned': got, 'text': rp['text']}
    exp = nat.described_dfa(rp['text'])
    return got != exp, {'returned': got, 'described': exp, 'text': rp['text']}


def _replay_nfa_text(rp):
    from gambatools.nfa_algorithms import parse_nfa
    r, obj = _replay_text(parse_nfa, rp, nat.nfa_json_of)
    if r is not None:
        return r, obj
    got = nat.nfa_json_of(obj)
    got['delta'] = sorted(x for x in got['delta'] if x[2])
    got.pop('defaultdict', None)
    if rp['expect'] == 'valid':
        ok = got['q0'] in got['Q'] and set(got['F']) <= set(got['Q']) and got['epsilon'] not in got['Sigma'] and \
            all(p in got['Q'] and (a in got['Sigma'] or a == got['epsilon']) and set(ts) <= set(got['Q']) for p, a, ts in got['delta'])
        return not ok, {'returned': got, 'text': rp['text']}
    exp = nat.described_nfa(rp['text'])
    return got != exp, {'returned': got, 'described': exp, 'text': rp['text']}


def _replay_label_text(rp):
    from gambatools.pda_algorithms import parse_pda
    from gambatools.tm_algorithms import parse_tm
    parse = parse_pda if rp['machine'] == 'pda' else parse_tm
    if rp.get('prior_dfa_text'):
        from gambatools.dfa_algorithms import parse_dfa
        try:
            parse_dfa(rp['prior_dfa_text'])
        except Exception:
            pass
    r, obj = _replay_text(parse, rp, lambda o: nat.summary_of(rp['machine'], o))
    if r is not None:
        return r, obj
    got, exp = nat.summary_of(rp['machine'], obj), nat.expected_of_text(rp['machine'])
    return got != exp, {'returned': got, 'expected': exp}


def _replay_pda_text(rp):
    from gambatools.pda_algorithms import parse_pda
    r, obj = _replay_text(parse_pda, rp, nat.pda_json_of)
    if r is not None:
        return r, obj
    got, exp = nat.pda_json_of(obj), nat.described_pda(rp['text'])
    return got != exp, {'returned': got, 'described': exp, 'text': rp['text']}


def _replay_tm_text(rp):
    from gambatools.tm_algorithms import parse_tm
    r, obj = _replay_text(parse_tm, rp, lambda o: nat.summary_of('tm', o))
    if r is not None:
        return r, obj
    got, exp = nat.summary_of('tm', obj), nat.described_tm(rp['text'])
    return got != exp, {'returned': got, 'described': exp, 'text': rp['text']}


REPLAY = {'tm_text': _replay_tm_text, 'pda_text': _replay_pda_text, 'dfa_text': _replay_dfa_text, 'nfa_text': _replay_nfa_text, 'label_text': _replay_label_text}
