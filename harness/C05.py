"""C05 -- regexp matcher and simplifier follow the denotational semantics."""
from . import common as c
from . import nat
from .common import E, L, TRUE, FALSE

META = {
    'bounds': {
        'quick': 'all regexp trees of depth<=2 over {0,1,a,b,*,+,.} (3 244 trees) x all words over {a,b} of length<=3; '
                 'simplifier: same trees, language compared on words<=3, size by regexp_size and by node count',
        'thorough': 'all trees of depth<=3 (about 2*10^7) x words<=4 (matcher) / words<=3 (simplifier)',
    },
    'outside': 'deeper trees, longer words, alphabets with more than two symbols, multi-character Symbol nodes',
    'oracle': 'denotational semantics computed bottom-up on the skeleton as {word: guard}; star by the standard unfolding '
              'w = u v, u non-empty, u in L(r), v in L(r*)',
    'assumptions': ['Symbol nodes carry a single character of {a, b}'],
}


def _tup(x):
    return tuple(_tup(e) for e in x) if isinstance(x, list) else x


def job_accepts(job, depth, maxlen, syms='ab', shape=None):
    from gambatools.regexp_algorithms import regexp_accepts_word
    from .regexp_sym import skeleton, shaped, Sem, regexp_json
    job.functions('regexp_algorithms', ['regexp_accepts_word'])
    job.functions('regexp', ['Zero', 'One', 'Symbol', 'Iteration', 'Sum', 'Concat'])
    syms = list(syms)
    r = shaped(_tup(shape), syms) if shape is not None else skeleton(depth, syms)
    job.inputs['r'] = r
    job.decoders['r'] = lambda mv: regexp_json(r, mv)
    words = c.words_upto(syms, maxlen)
    res = {w: regexp_accepts_word(r, w) for w in words}
    job.lifted()
    nr = c.native('regexp_algorithms')
    job.differential(40, lambda mv: {w: c.conc(res[w], mv) for w in words},
                     lambda mv: (lambda rn: {w: nr.regexp_accepts_word(rn, w) for w in words})(nat.mk_regexp(regexp_json(r, mv), c.native('regexp'))),
                     'regexp_accepts_word', replay=('accepts', {'r': lambda mv: regexp_json(r, mv), 'word': words[-1]}))
    sem = Sem()
    d = E.dag
    for w in words:
        bad = d.iff(E.lit(res[w]), sem.member(r, w)) ^ 1
        # a result that is neither True nor False (None) is also wrong
        if not isinstance(res[w], (bool, L.SB)):
            bad = d.or_(bad, d.any_(g for g, v in E.alts(res[w]) if not isinstance(v, bool)))
        job.oblige('regexp_accepts_word(r, %r) == denotation' % w, bad,
                   replay=('accepts', {'r': lambda mv: regexp_json(r, mv), 'word': w}))
    job.failures_as_obligations(replay=('accepts', {'r': lambda mv: regexp_json(r, mv), 'word': words[-1]}))
    job.must_reach('some regexp matches the longest word', sem.member(r, words[-1]))
    return job.solve()


def job_simplify(job, depth, maxlen, syms='ab', shape=None):
    from gambatools.regexp_algorithms import regexp_simplify, regexp_size
    from .regexp_sym import skeleton, shaped, Sem, regexp_json
    job.functions('regexp_algorithms', ['regexp_simplify', 'regexp_size'])
    syms = list(syms)
    r = shaped(_tup(shape), syms) if shape is not None else skeleton(depth, syms)
    job.inputs['r'] = r
    job.decoders['r'] = lambda mv: regexp_json(r, mv)
    s = regexp_simplify(r)
    size_r = regexp_size(r)
    size_s = regexp_size(s)
    job.lifted()
    nr = c.native('regexp_algorithms')

    def nat_view(mv):
        rn = nat.mk_regexp(regexp_json(r, mv), c.native('regexp'))
        sn = nr.regexp_simplify(rn)
        return (nat.regexp_json_of(sn), nr.regexp_size(rn), nr.regexp_size(sn))
    job.differential(40, lambda mv: (regexp_json(s, mv), c.conc(size_r, mv), c.conc(size_s, mv)), nat_view, 'regexp_simplify')
    sem = Sem()
    d = E.dag
    rp = ('simplify', {'r': lambda mv: regexp_json(r, mv), 'maxlen': maxlen})
    for w in c.words_upto(syms, maxlen):
        job.oblige('L(simplify(r)) and L(r) agree on %r' % w, d.iff(sem.member(s, w), sem.member(r, w)) ^ 1, replay=rp)
    for kind in ('ops', 'nodes'):
        a = sem.size(r, kind)
        b = sem.size(s, kind)
        bad = d.any_(d.and_(ga, gb) for ka, ga in a.items() for kb, gb in b.items() if kb > ka)
        job.oblige('size(simplify(r)) <= size(r) [%s]' % kind, bad, replay=rp)
    # the library's own measure, as computed by the library
    job.oblige('regexp_size(simplify(r)) <= regexp_size(r)', E.lit(L.CMP('Gt', size_s, size_r)), replay=rp)
    # the argument is not modified (purity): its denotation tree is unchanged -- checked structurally by re-decoding
    job.failures_as_obligations(replay=rp)
    job.must_reach('some regexp really shrinks', d.any_(d.and_(ga, gb) for ka, ga in sem.size(r, 'nodes').items()
                                                       for kb, gb in sem.size(s, 'nodes').items() if kb < ka))
    return job.solve()


def jobs(tier):
    J = []

    def add(name, fn, timeout=None, **params):
        J.append({'name': name, 'fn': fn, 'params': params, **({'timeout': timeout} if timeout else {})})
    if tier == 'quick':
        add('accepts_d2_L3', job_accepts, depth=2, maxlen=3)
        add('accepts_d1_L4', job_accepts, depth=1, maxlen=4)
        add('simplify_d2_L3', job_simplify, depth=2, maxlen=3)
        # symbols named like the constants: Symbol('0') / Symbol('1') print like Zero() / One()
        add('simplify_d2_L2_digits', job_simplify, depth=2, maxlen=2, syms='01')
        add('accepts_d2_L2_digits', job_accepts, depth=2, maxlen=2, syms='01')
        # selected depth-3 shapes (root operator fixed = one cube of the depth-3 space each)
        add('accepts_star_of_d2_L3', job_accepts, depth=3, maxlen=3, shape=['I', 2])
        add('accepts_concat_d1_star_d1_L4', job_accepts, depth=3, maxlen=4, shape=['C', 1, ['I', 1]])
        add('simplify_star_of_d2_L3', job_simplify, depth=3, maxlen=3, shape=['I', 2])
        add('simplify_concat_stars_L3', job_simplify, depth=3, maxlen=3, shape=['C', ['I', 1], ['I', 1]])
        add('simplify_sum_stars_L3', job_simplify, depth=3, maxlen=3, shape=['S', ['I', 1], ['I', 1]])
        add('simplify_concat_d2_d1_L3', job_simplify, depth=3, maxlen=3, shape=['C', 2, 1])
        add('simplify_sum_d1_d2_L3', job_simplify, depth=3, maxlen=3, shape=['S', 1, 2])
    else:
        add('accepts_d2_L5', job_accepts, depth=2, maxlen=5)
        add('accepts_d3_L3', job_accepts, depth=3, maxlen=3, timeout=3000)
        add('accepts_d3_L4', job_accepts, depth=3, maxlen=4, timeout=3000)
        add('simplify_d3_L3', job_simplify, depth=3, maxlen=3, timeout=3000)
        add('simplify_d2_L4', job_simplify, depth=2, maxlen=4)
    return J


def _replay_accepts(rp):
    from gambatools.regexp_algorithms import regexp_accepts_word
    r = nat.mk_regexp(rp['r'])
    try:
        got = regexp_accepts_word(r, rp['word'])
    except Exception as e:
        return True, {'library raised': repr(e)}
    exp = rp['word'] in nat.ref_regexp_lang(rp['r'], len(rp['word']))
    return got is not exp, {'regexp': str(r), 'word': rp['word'], 'library': got, 'reference': exp}


def _replay_simplify(rp):
    from gambatools.regexp_algorithms import regexp_simplify, regexp_size
    r = nat.mk_regexp(rp['r'])
    before = nat.regexp_json_of(r)
    try:
        s = regexp_simplify(r)
    except Exception as e:
        return True, {'library raised': repr(e)}
    sj = nat.regexp_json_of(s)
    n = rp['maxlen']
    bad_lang = nat.ref_regexp_lang(sj, n) != nat.ref_regexp_lang(rp['r'], n)
    bad_size = nat.regexp_nodes(sj) > nat.regexp_nodes(rp['r']) or regexp_size(s) > regexp_size(r)
    mutated = nat.regexp_json_of(r) != before
    return bad_lang or bad_size or mutated, {'regexp': str(r), 'simplified': str(s), 'language_differs': bad_lang, 'larger': bad_size, 'argument_mutated': mutated}


REPLAY = {'accepts': _replay_accepts, 'simplify': _replay_simplify}
