"""Driver: ./check Cxx [--tier quick|thorough] [--replay path] [--only jobpattern]

Runs the jobs of harness module harness.<Cxx> in separate processes (the lifting engine is a
process-wide singleton), replays every counterexample against the unmodified library in a fresh
interpreter, matches known findings, writes evidence/<id>.json and sets the exit code:
  0  every obligation discharged (known findings may have been printed)
  1  a reproduced violation that known_findings.json does not list (VIOLATION line on stdout)
  3  inconclusive / harness error
"""
import argparse
import fnmatch
import importlib
import json
import os
import subprocess
import sys
import tempfile
import time

VERIF = os.path.dirname(os.path.dirname(os.path.abspath(__file__)))
PY = sys.executable
NATIVE_PY = os.environ.get('VERIF_NATIVE_PY', '/venv/bin/python')
GUARD = 'GAMBATOOLS_VERIF'


def scratch_dir():
    d = os.environ.get('VERIF_SCRATCH') or os.path.join(VERIF, '.scratch')
    os.makedirs(d, exist_ok=True)
    return d


def load_known(prop):
    path = os.path.join(VERIF, 'known_findings.json')
    if not os.path.exists(path):
        return []
    data = json.load(open(path))
    return [f for f in data.get('findings', []) if f.get('property') == prop and f.get('status') == 'open']


# ------------------------------------------------------------------------- child: one job
def child_main(prop, jobname, params_json, out_path, seed):
    from harness import common
    mod = importlib.import_module('harness.' + prop)
    params = json.loads(params_json)
    specs = mod.jobs(params.get('_tier', 'quick'))
    exact = [j for j in specs if j['name'] == jobname]
    # development aid: an unregistered job name runs the function of the registered job with the longest common prefix
    spec = exact[0] if exact else max(specs, key=lambda j: len(os.path.commonprefix([j['name'], jobname])))
    res = {'job': jobname, 'property': prop, 'params': params}
    t0 = time.time()
    try:
        common.boot(getattr(mod, 'EXTRA_NATIVE', ()))
        job = common.Job(jobname, prop, params, seed)
        job.known = params.get('_known', [])
        out = spec['fn'](job, **{k: v for k, v in params.items() if not k.startswith('_')})
        res = out if out is not None else job.result
        res['status'] = 'done'
    except common.HarnessError as e:
        res['status'] = 'harness_error'
        res['error'] = str(e)[:2000]
    except BaseException as e:      # noqa
        import traceback
        res['status'] = 'harness_error'
        res['error'] = '%s: %s\n%s' % (type(e).__name__, str(e)[:500], traceback.format_exc()[-1500:])
    finally:
        try:
            common.E.solver.close()
        except Exception:
            pass
    res.setdefault('wall_s', round(time.time() - t0, 3))
    with open(out_path, 'w') as f:
        json.dump(res, f)


# ------------------------------------------------------------------------- replay
def replay_one(prop, cex_path):
    """child process under NATIVE_PY: runs the harness's native replay function; prints one line"""
    sys.path.insert(0, VERIF)
    mod = importlib.import_module('harness.' + prop)
    cex = json.load(open(cex_path))
    rp = cex['replay']
    if rp['kind'] == '__history__':
        # a sequence of calls in ONE native process (hidden state between calls): each is judged by its own replay function
        ok, detail = False, {'calls': len(rp['sequence'])}
        # (three rounds: state keyed on object identity needs an address to be reused, which depends on the allocator)
        for i, step in enumerate(list(rp['sequence']) * 3):
            try:
                bad, det = mod.REPLAY[step['kind']](step)
            except Exception as e:      # the judge itself raised: treat as not reproduced for this step
                bad, det = False, {'judge raised': repr(e)}
            if bad:
                ok, detail = True, {'violated at call': i + 1, 'of': 3 * len(rp['sequence']), 'input': {k: v for k, v in step.items() if k != 'kind'}, 'detail': det}
                break
        print('REPLAY %s %s' % ('reproduced' if ok else 'not-reproduced', json.dumps(detail, default=str)[:1500]))
        return 0
    fn = mod.REPLAY[rp['kind']]
    ok, detail = fn(rp)
    print('REPLAY %s %s' % ('reproduced' if ok else 'not-reproduced', json.dumps(detail, default=str)[:1500]))
    return 0


def run_replay(prop, cex, path=None, seeds=None, timeout_s=30):
    """-> (reproduced, detail). Sweeps PYTHONHASHSEED when the replay asks for it; a hang counts as
    reproduced only for counterexamples flagged hang=True"""
    rp = cex.get('replay')
    if not rp:
        return None, 'no replay recipe'
    own = path is None
    if own:
        fd, path = tempfile.mkstemp(suffix='.json', dir=scratch_dir())
        os.close(fd)
        json.dump(cex, open(path, 'w'))
    seeds = seeds or list(range(0, int(rp.get('nseeds', 12))))   # stops at the first seed that reproduces
    details = []
    try:
        for s in seeds:
            env = dict(os.environ, PYTHONHASHSEED=str(s), PYTHONPATH=VERIF)
            env.pop(GUARD, None)
            try:
                p = subprocess.run([NATIVE_PY, '-m', 'harness.run', '--replay-child', prop, path], cwd=VERIF, env=env,
                                   capture_output=True, text=True, timeout=timeout_s)
            except subprocess.TimeoutExpired:
                if rp.get('hang'):
                    return True, 'no result within %d s under PYTHONHASHSEED=%d (non-termination)' % (timeout_s, s)
                details.append('seed %d: timeout' % s)
                continue
            line = [l for l in p.stdout.split('\n') if l.startswith('REPLAY ')]
            if not line:
                details.append('seed %d: replay crashed: %s' % (s, (p.stderr or p.stdout)[-400:]))
                continue
            if line[0].startswith('REPLAY reproduced'):
                return True, 'PYTHONHASHSEED=%d %s' % (s, line[0][len('REPLAY reproduced '):])
            details.append('seed %d: %s' % (s, line[0][:300]))
        return False, '; '.join(details)[:1500]
    finally:
        if own:
            os.unlink(path)


# ------------------------------------------------------------------------- parent
def run_jobs(prop, specs, tier, seed, known_regions, nproc, only=None):
    """run job specs (each with a ladder of rungs) with at most nproc processes"""
    pending = []
    for s in specs:
        if only and not fnmatch.fnmatch(s['name'], only):
            continue
        pending.append({'spec': s, 'rung': 0})
    running = []
    results = []
    sd = scratch_dir()

    def start(item):
        s = item['spec']
        rungs = s.get('rungs') or [s.get('params', {})]
        params = dict(rungs[item['rung']], _tier=tier, _known=known_regions)
        fd, out = tempfile.mkstemp(suffix='.json', prefix='job_', dir=sd)
        os.close(fd)
        os.unlink(out)
        env = dict(os.environ, PYTHONPATH=VERIF, PYTHONHASHSEED='0')
        env[GUARD] = '1'
        env.setdefault('VERIF_CROSSCHECK', '2' if tier == 'quick' else '6')
        if tier != 'quick':
            env.setdefault('VERIF_CROSSCHECK_CVC5', '1')
        logf = open(out + '.log', 'w')
        p = subprocess.Popen([PY, '-m', 'harness.run', '--job-child', prop, s['name'], json.dumps(params), out, str(seed)],
                             cwd=VERIF, env=env, stdout=logf, stderr=subprocess.STDOUT, text=True)
        logf.close()
        item.update(proc=p, out=out, t0=time.time(), params=params, nrungs=len(rungs))
        running.append(item)

    while pending or running:
        while pending and len(running) < nproc:
            start(pending.pop(0))
        time.sleep(0.05)
        for item in list(running):
            p = item['proc']
            s = item['spec']
            tmo = s.get('timeout', 300 if tier == 'quick' else 1500)
            rc = p.poll()
            if rc is None and time.time() - item['t0'] > tmo:
                p.kill()
                p.wait()
                rc = 'timeout'
            if rc is None:
                continue
            running.remove(item)
            try:
                log = open(item['out'] + '.log').read()[-3000:]
                os.unlink(item['out'] + '.log')
            except Exception:
                log = ''
            res = None
            if rc != 'timeout' and os.path.exists(item['out']):
                try:
                    res = json.load(open(item['out']))
                except Exception:
                    res = None
            if os.path.exists(item['out']):
                os.unlink(item['out'])
            if res is None:
                res = {'job': s['name'], 'property': prop, 'params': item['params'],
                       'status': 'timeout' if rc == 'timeout' else 'crashed',
                       'error': ('no result within %d s' % tmo) if rc == 'timeout' else 'exit %r: %s' % (rc, log[-800:]),
                       'wall_s': round(time.time() - item['t0'], 1)}
            res['rung'] = item['rung']
            res['log_tail'] = log[-600:] if res.get('status') != 'done' else ''
            if res['status'] in ('timeout', 'crashed') and item['rung'] + 1 < item['nrungs']:
                # descend the bound ladder; the evidence reports the rung that completed
                results.append(dict(res, superseded=True))
                pending.insert(0, {'spec': s, 'rung': item['rung'] + 1})
                continue
            results.append(res)
    return results


def main(argv=None):
    ap = argparse.ArgumentParser()
    ap.add_argument('prop')
    ap.add_argument('--tier', default=os.environ.get('VERIF_TIER', 'quick'))
    ap.add_argument('--replay')
    ap.add_argument('--only')
    ap.add_argument('--nproc', type=int, default=int(os.environ.get('VERIF_NPROC', '0')) or max(2, (os.cpu_count() or 4) - 2))
    ap.add_argument('--no-evidence', action='store_true')
    a = ap.parse_args(argv)
    prop = a.prop
    tier = os.environ.get('VERIF_TIER') or a.tier
    seed = int(os.environ.get('VERIF_SEED', '0') or 0)
    t0 = time.time()
    mod = importlib.import_module('harness.' + prop)

    if a.replay:
        cex = json.load(open(a.replay))
        ok, detail = run_replay(prop, cex, path=a.replay)
        print('replay %s: %s' % ('REPRODUCED' if ok else 'not reproduced', detail))
        if ok:
            print('VIOLATION property=%s replay=%s' % (prop, a.replay))
        return 1 if ok else 0

    # known findings: confirm each witness still fails; only then is its region excluded
    known = load_known(prop)
    known_lines = []
    active_regions = []
    for f in known:
        ok, detail = run_replay(prop, {'replay': f['witness']})
        if ok:
            known_lines.append('KNOWN-FINDING: property=%s %s' % (prop, f['what']))
            active_regions.append(f['region'])
        else:
            print('note: known finding %r no longer reproduces (%s); its region is NOT excluded' % (f['id'], detail), file=sys.stderr)

    rdir = os.path.join(VERIF, 'replays')
    if os.path.isdir(rdir) and not a.only:
        for fn in os.listdir(rdir):
            if fn.startswith(prop + '-'):
                os.unlink(os.path.join(rdir, fn))
    specs = mod.jobs(tier)
    core = set(s_['name'] for s_ in specs)
    if tier == 'thorough':
        # the thorough tier always contains the quick tier (the jobs measured to complete on every run); jobs that exist only
        # in the thorough list are the deepening: if one of them does not finish within its limit it is reported under
        # not_completed (it is then simply not part of what this run explored) instead of failing the whole check
        tnames = set(s_['name'] for s_ in specs)
        qspecs = [s_ for s_ in mod.jobs('quick') if s_['name'] not in tnames]
        core = set(s_['name'] for s_ in mod.jobs('quick'))
        specs = qspecs + specs
    results = run_jobs(prop, specs, tier, seed, active_regions, a.nproc, a.only)

    final = [r for r in results if not r.get('superseded')]
    violations = []
    inconclusive = []
    harness_errors = []
    replays_done = 0
    skipped_replays = 0
    unreplayed_jobs = []
    not_completed = []
    for r in final:
        deepening = tier == 'thorough' and r['job'] not in core
        if r['status'] in ('timeout', 'crashed') and deepening:
            not_completed.append('%s: %s after %s s' % (r['job'], r['status'], r.get('wall_s')))
            continue
        if r['status'] != 'done':
            harness_errors.append('%s: %s: %s' % (r['job'], r['status'], r.get('error', '')[:600]))
            continue
        if deepening and r.get('inconclusive') and not r.get('violations'):
            not_completed.append('%s: %d obligations undecided within the solver time limit' % (r['job'], len(r['inconclusive'])))
            r['inconclusive'] = []
        if not r.get('obligations'):
            # a job that decided nothing must not count as a pass (guards against a harness that returns early)
            harness_errors.append('%s: the job completed without a single obligation (vacuous)' % r['job'])
        for inc in r.get('inconclusive', []):
            inconclusive.append('%s: %s (%s)' % (r['job'], inc['obligation'], inc['reason']))
        reproduced_here = 0
        failed_here = 0
        for cex in r.get('violations', []):
            cex['job'] = r['job']
            # replay budget: one reproduced counterexample per job is enough to report (the others of that job are
            # listed unreplayed in the evidence); after 3 non-reproducing ones the job is a harness error anyway;
            # after 6 reproduced violations over the whole check the remaining jobs are not replayed
            if reproduced_here >= 1 or failed_here >= 3 or len(violations) >= 6:
                skipped_replays += 1
                continue
            ok, detail = run_replay(prop, cex)
            reproduced_here += 1 if ok else 0
            failed_here += 0 if ok else 1
            replays_done += 1
            cex['replay_detail'] = detail
            if ok:
                violations.append(cex)
            elif ok is None:
                harness_errors.append('%s: counterexample for %r has no replay recipe: %s' % (r['job'], cex['obligation'], json.dumps(cex['input'])[:400]))
            else:
                harness_errors.append('%s: counterexample for %r did NOT reproduce natively (encoding or oracle wrong): %s | %s' %
                                      (r['job'], cex['obligation'], json.dumps(cex['input'])[:600], detail[:600]))
        if r.get('violations') and not reproduced_here and not failed_here and len(violations) >= 6:
            unreplayed_jobs.append(r['job'])

    for r in final:
        if r['status'] == 'done' and r.get('differential_mismatch') and not any(v['job'] == r['job'] for v in violations):
            hist = r.get('differential_history')
            if hist:
                # lifted (history-free) and native (one process, many calls) results differ: re-run the same sequence of native
                # calls in a fresh interpreter under the property's native judge; a violation there is a history-dependent
                # violation of the real library (hidden state between calls), anything else stays a harness error
                cex = {'obligation': 'the result does not depend on earlier calls in the same process (sequence of %d calls; found as a '
                                     'lifted/native disagreement, confirmed by the native judge)' % len(hist),
                       'input': {'sequence_length': len(hist), 'last': {k: v for k, v in hist[-1].items() if k != 'kind'}}, 'demanded': True,
                       'job': r['job'], 'replay': {'kind': '__history__', 'sequence': hist, 'nseeds': 2}}
                ok, detail = run_replay(prop, cex, timeout_s=120)
                replays_done += 1
                if ok:
                    cex['replay_detail'] = detail
                    violations.append(cex)
                    continue
            harness_errors.append('%s: %s' % (r['job'], r['differential_mismatch']))

    # write replays + report
    os.makedirs(os.path.join(VERIF, 'replays'), exist_ok=True)
    vio_lines = []
    seen = set()
    for i, cex in enumerate(violations):
        key = json.dumps(cex.get('replay'), sort_keys=True)
        if key in seen:
            continue
        seen.add(key)
        path = os.path.join(VERIF, 'replays', '%s-%d.json' % (prop, len(seen)))
        json.dump(cex, open(path, 'w'), indent=1, default=str)
        vio_lines.append('VIOLATION property=%s replay=%s' % (prop, path))
        print('violation in %s: %s\n  input: %s\n  native replay: %s' % (cex['job'], cex['obligation'], json.dumps(cex['input'])[:800], cex['replay_detail'][:400]))

    if not a.no_evidence:
        write_evidence(prop, tier, seed, mod, results, final, violations, inconclusive, harness_errors, known_lines,
                       replays_done, time.time() - t0, not_completed)
    for l in known_lines:
        print(l)
    for l in vio_lines:
        print(l)
    nob = sum(r.get('obligations', 0) for r in final)
    ndis = sum(r.get('discharged', 0) for r in final)
    if not_completed:
        print('note: %d deepening job(s) of the thorough tier did not complete and are NOT part of what this run explored: %s' %
              (len(not_completed), '; '.join(not_completed)[:1500]))
    if skipped_replays:
        print('note: %d further counterexamples were not replayed (replay budget); jobs with unreplayed counterexamples only: %s' %
              (skipped_replays, ', '.join(unreplayed_jobs[:20]) or '-'))
    print('%s tier=%s jobs=%d obligations=%d discharged=%d violations=%d inconclusive=%d harness_errors=%d wall=%.1fs' %
          (prop, tier, len(final), nob, ndis, len(vio_lines), len(inconclusive), len(harness_errors), time.time() - t0))
    if vio_lines:
        return 1
    if harness_errors or inconclusive:
        for h in harness_errors:
            print('HARNESS-ERROR: ' + h[:700], file=sys.stderr)
        for h in inconclusive:
            print('INCONCLUSIVE: ' + h[:500], file=sys.stderr)
        return 3
    return 0


def write_evidence(prop, tier, seed, mod, results, final, violations, inconclusive, harness_errors, known_lines,
                   replays_done, wall, not_completed=()):
    done = [r for r in final if r['status'] == 'done']
    queries = sum(r.get('queries', 0) for r in done)
    nontrivial = sum(r.get('nontrivial_distinct_queries', r.get('queries', 0)) for r in done)
    samples = []
    for r in done:
        for s in r.get('samples', [])[:2]:
            samples.append({'job': r['job'], 'input': s})
    for v in violations[:5]:
        samples.append({'job': v['job'], 'counterexample_for': v['obligation'], 'input': v['input']})
    if not samples:
        samples = [{'note': 'no job completed'}]
    functions = {}
    for r in done:
        functions.update(r.get('functions', {}))
    meta = getattr(mod, 'META', {})
    cov = {
        'evaluations': max(1, queries),
        'distinct_nontrivial': max(0, nontrivial),
        'rule': 'evaluations = SAT queries sent to z3 (one per obligation, vacuity witness and loop-continuation test; '
                'constant-folded ones excluded); distinct_nontrivial = those whose formula mentions at least one symbolic '
                'input bit (every query sent is of that kind: formulas that fold to a constant are decided without the '
                'solver and counted under trivial_queries). Each query ranges over the whole input space of its job '
                '(2^input_bits structures), see jobs[].',
        'samples': samples[:12],
        'obligations': sum(r.get('obligations', 0) for r in done),
        'discharged': sum(r.get('discharged', 0) for r in done),
        'inconclusive': inconclusive[:50],
        'harness_errors': harness_errors[:20],
        'not_completed': list(not_completed)[:50],
        'exhaustive': False,
        'functions_encoded': functions,
        'bounds': meta.get('bounds', {}).get(tier, meta.get('bounds', '')),
        'outside_claim': meta.get('outside', ''),
        'oracle': meta.get('oracle', ''),
        'trusted_base': meta.get('trusted_base', ['CPython 3.12', 'z3 5.1.0', 'symlift engine (validated per run by differential models and native replay)', 'harness oracles']),
        'solver_s': round(sum(r.get('solver_s', 0) for r in done), 2),
        'lift_s': round(sum(r.get('lift_s', 0) for r in done), 2),
        'differential_models': sum(r.get('differential_models', 0) for r in done),
        'vacuity_witnesses': sum(len(r.get('vacuity', [])) for r in done),
        'replays_run': replays_done,
        'second_solver_agreement': {k: sum((r.get('second_solver') or {}).get(k, 0) for r in done) for k in ('queries_rechecked', 'agree', 'no_answer_in_time', 'disagree')},
        'known_findings_printed': known_lines,
        'jobs': [{k: r.get(k) for k in ('job', 'status', 'rung', 'params', 'obligations', 'discharged', 'input_bits',
                                         'aig_nodes', 'queries', 'trivial_queries', 'lift_s', 'solver_s', 'max_query_s',
                                         'wall_s', 'differential_models', 'loop_feasibility_queries', 'guarded_failures',
                                         'unwinding_obligations', 'notes', 'cubes', 'superseded', 'second_solver') if k in r}
                 for r in results],
    }
    ev = {
        'property_id': prop, 'tier': tier if tier in ('quick', 'thorough') else 'quick', 'seed': seed,
        'level': 'model_checking', 'coverage': cov,
        'assumptions': meta.get('assumptions', []),
        'wall_s': round(wall, 2), 'violations': len(violations),
    }
    os.makedirs(os.path.join(VERIF, 'evidence'), exist_ok=True)
    with open(os.path.join(VERIF, 'evidence', prop + '.json'), 'w') as f:
        json.dump(ev, f, indent=1, default=str)


if __name__ == '__main__':
    if len(sys.argv) > 1 and sys.argv[1] == '--job-child':
        child_main(sys.argv[2], sys.argv[3], sys.argv[4], sys.argv[5], int(sys.argv[6]))
        sys.exit(0)
    if len(sys.argv) > 1 and sys.argv[1] == '--replay-child':
        sys.exit(replay_one(sys.argv[2], sys.argv[3]))
    if len(sys.argv) > 1 and sys.argv[1] == '--replay-batch':
        sys.path.insert(0, VERIF)
        _mod = importlib.import_module('harness.' + sys.argv[2])
        _out = []
        for _item in json.load(open(sys.argv[3])):
            try:
                _ok, _detail = _mod.REPLAY[_item['replay']['kind']](_item['replay'])
            except Exception as _e:      # a replay function that cannot judge the input: not counted as a violation
                _ok, _detail = False, 'replay function raised %r' % (_e,)
            _out.append([bool(_ok), json.loads(json.dumps(_detail, default=str))])
        print('BATCH ' + json.dumps(_out))
        sys.exit(0)
    sys.exit(main())
