"""Symbolic pushdown automata (candidate transitions with presence bits) and the reference configuration semantics."""
import itertools

from .common import E, L, TRUE, FALSE


def sym_pda(states, sigma, gamma, eps, fixed, symbolic, finals_symbolic=True, finals=(), q0=None, tag='t'):
    """transitions are 5-tuples (p, a, u, q, v) with a in sigma + [eps], u, v in gamma + [eps]; `fixed` are always
    present, `symbolic` present or not. -> (P, trans) with trans = [(lit, (p, a, u, q, v))]"""
    from gambatools.pda import PDA
    trans = []
    delta = L.GDict(default_factory=L.GSet)
    for i, t in enumerate(list(fixed) + list(symbolic)):
        t = tuple(t)
        bit = TRUE if i < len(fixed) else E.fresh('%s%d_%s' % (tag, i, '.'.join(x or 'eps' for x in t)))
        trans.append((bit, t))
        p, a, u, q, v = t
        ent = delta.m.get((p, a, u))
        if ent is None:
            ent = [FALSE, L.GSet()]
            delta.m[(p, a, u)] = ent
        ent[0] = E.dag.or_(ent[0], bit)
        ent[1].m[(q, v)] = E.dag.or_(ent[1].m.get((q, v), FALSE), bit)
    F = L.GSet()
    fbits = {}
    for s in states:
        fbits[s] = E.fresh('f_%s' % s) if finals_symbolic else (TRUE if s in finals else FALSE)
        if fbits[s] != FALSE:
            F.m[s] = fbits[s]
    P = PDA(L.GSet(states), L.GSet(list(sigma)), L.GSet(list(gamma)), delta, q0 or states[0], F, eps)
    return P, trans, fbits


def pda_json(states, sigma, gamma, eps, trans, fbits, q0):
    def dec(mv):
        return {'Q': list(states), 'Sigma': list(sigma), 'Gamma': list(gamma), 'epsilon': eps, 'q0': q0,
                'F': [s for s in states if mv(fbits[s])], 'delta': [list(t) for bit, t in trans if mv(bit)]}
    return dec


def read_pda(P):
    """(states presence, transitions [(lit, (p,a,u,q,v))], finals {q: lit}, q0 alternatives, epsilon) of a PDA value"""
    from .oracles import field, dict_items
    d = E.dag
    Q = {str(k): g for k, g in L._setview(field(P, 'Q')).m.items()}
    F = {str(k): g for k, g in L._setview(field(P, 'F')).m.items()}
    Gam = {str(k): g for k, g in L._setview(field(P, 'Gamma')).m.items()}
    q0 = {str(k): g for g, k in E.alts(field(P, 'q0'))}
    trans = []
    for (p, a, u), (pres, val) in dict_items(field(P, 'delta')).items():
        sv = L._setview(val)
        for (q, v), g in sv.m.items():
            lit = d.and_(pres, g)
            if lit != FALSE:
                trans.append((lit, (str(p), str(a), str(u), str(q), str(v))))
    eps = [v for g, v in E.alts(field(P, 'epsilon'))]
    return Q, trans, F, q0, Gam, str(eps[0])


class RefPDA:
    """reference semantics: sets of configurations (state, stack) as {config: lit}; epsilon closure explored level by
    level (k levels = everything reachable with at most k epsilon moves), stack depth bounded by construction"""

    def __init__(self, trans, finals, q0_alts, eps, maxdepth=12):
        self.trans = trans
        self.F = finals
        self.q0 = q0_alts
        self.eps = eps
        self.maxdepth = maxdepth
        self.overflow = FALSE       # some configuration beyond maxdepth was needed

    def initial(self):
        return {(q, ()): g for q, g in self.q0.items()}

    def moves(self, conf_set, label):
        d = E.dag
        out = {}
        for (p, st), g in conf_set.items():
            if g == FALSE:
                continue
            for lit, (p1, a, u, q, v) in self.trans:
                if p1 != p or a != label:
                    continue
                if u != self.eps and not (st and st[-1] == u):
                    continue
                st1 = st if u == self.eps else st[:-1]
                if v != self.eps:
                    st1 = st1 + (v,)
                gl = d.and_(g, lit)
                if gl == FALSE:
                    continue
                if len(st1) > self.maxdepth:
                    self.overflow = d.or_(self.overflow, gl)
                    continue
                out[(q, st1)] = d.or_(out.get((q, st1), FALSE), gl)
        return out

    def closure(self, conf_set, levels):
        """-> (closure within `levels` epsilon moves, list of per-level frontiers)"""
        d = E.dag
        cur = dict(conf_set)
        frontier = dict(conf_set)
        for _ in range(levels):
            nxt = self.moves(frontier, self.eps)
            new_frontier = {}
            for cfg, g in nxt.items():
                old = cur.get(cfg, FALSE)
                fresh = d.and_(g, old ^ 1)
                if fresh != FALSE:
                    new_frontier[cfg] = fresh
                cur[cfg] = d.or_(old, g)
            frontier = new_frontier
            if not frontier:
                break
        return cur, frontier

    def accepts_lit(self, conf_set):
        d = E.dag
        return d.any_(d.and_(g, self.F.get(q, FALSE)) for (q, st), g in conf_set.items())
