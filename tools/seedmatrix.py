#!/usr/bin/env python3
"""tools/seedmatrix.py [PROP ...] : run the quick check of each seeded change's property with the change applied (then
undone) and record the outcome in seeded/<id>/meta.json. Development aid, not a registered command. With SEED_REPO=<dir> the
patches are applied to that scratch clone of /repo (the checks are pointed at it through GAMBATOOLS_REPO), so that /repo
itself stays untouched while other runs use it."""
import json, os, subprocess, sys, time
V = '/verif'
REPO = os.environ.get('SEED_REPO', '/repo')
ENV = dict(os.environ, GAMBATOOLS_REPO=REPO)
want = sys.argv[1:]
rows = []
for d in sorted(os.listdir(V + '/seeded')):
    p = os.path.join(V, 'seeded', d)
    mp = os.path.join(p, 'meta.json')
    if not os.path.exists(mp):
        continue
    meta = json.load(open(mp))
    prop = meta['property']
    if want and prop not in want and d not in want:
        continue
    if not os.path.exists(os.path.join(V, 'harness', prop + '.py')):
        continue
    assert subprocess.run(['git', '-C', REPO, 'status', '--short', '--', 'src'], capture_output=True, text=True).stdout.strip() == ''
    if subprocess.run(['git', '-C', REPO, 'apply', os.path.join(p, 'patch.diff')]).returncode != 0:
        rows.append((d, 'patch does not apply', 0)); continue
    t = time.time()
    try:
        r = subprocess.run(['./check', prop, '--no-evidence'], cwd=V, capture_output=True, text=True, timeout=3000, env=ENV)
        rc = r.returncode
        tail = r.stdout.strip().split('\n')[-1]
    except subprocess.TimeoutExpired:
        rc, tail = 'timeout', ''
    finally:
        subprocess.run(['git', '-C', REPO, 'checkout', '--', '.'])
    meta['detected_by'] = {'check': './check %s --tier quick' % prop, 'exit': rc, 'summary': tail, 'wall_s': round(time.time() - t, 1)}
    json.dump(meta, open(mp, 'w'), indent=1)
    rows.append((d, rc, round(time.time() - t, 1)))
    print(d, rc, round(time.time() - t, 1), tail[:150], flush=True)
