#!/usr/bin/env python3
"""tools/seedmatrix.py [PROP ...] : run the quick check of each seeded change's property with the change applied to
/repo (then undone) and record the outcome in seeded/<id>/meta.json. Development aid, not a registered command."""
import json, os, subprocess, sys, time
V = '/verif'
want = sys.argv[1:]
rows = []
for d in sorted(os.listdir(V + '/seeded')):
    p = os.path.join(V, 'seeded', d)
    mp = os.path.join(p, 'meta.json')
    if not os.path.exists(mp):
        continue
    meta = json.load(open(mp))
    prop = meta['property']
    if want and prop not in want and d not in want:
        continue
    if not os.path.exists(os.path.join(V, 'harness', prop + '.py')):
        continue
    assert subprocess.run(['git', '-C', '/repo', 'status', '--short', '--', 'src'], capture_output=True, text=True).stdout.strip() == ''
    if subprocess.run(['git', '-C', '/repo', 'apply', os.path.join(p, 'patch.diff')]).returncode != 0:
        rows.append((d, 'patch does not apply', 0)); continue
    t = time.time()
    try:
        r = subprocess.run(['./check', prop, '--no-evidence'], cwd=V, capture_output=True, text=True, timeout=3000)
        rc = r.returncode
        tail = r.stdout.strip().split('\n')[-1]
    except subprocess.TimeoutExpired:
        rc, tail = 'timeout', ''
    finally:
        subprocess.run(['git', '-C', '/repo', 'checkout', '--', '.'])
    meta['detected_by'] = {'check': './check %s --tier quick' % prop, 'exit': rc, 'summary': tail, 'wall_s': round(time.time() - t, 1)}
    json.dump(meta, open(mp, 'w'), indent=1)
    rows.append((d, rc, round(time.time() - t, 1)))
    print(d, rc, round(time.time() - t, 1), tail[:150], flush=True)
