#!/bin/bash
# tools/allquick.sh [--evidence] : run every quick check in turn and print the summary lines (development aid)
cd /verif
ev="--no-evidence"; [ "$1" = "--evidence" ] && ev=""
for i in $(seq -w 1 20); do
  out=$(./check C$i --tier quick $ev 2>&1); rc=$?
  echo "C$i exit=$rc $(echo "$out" | grep "tier=quick" | tail -1)"
  [ $rc -ne 0 ] && echo "$out" | grep -i "harness-error\|VIOLATION" | head -3 | cut -c1-400
done
