#!/bin/bash
# usage: tools/mut.sh <file under /repo/src/gambatools> <python-expr old> <new> -- <check args...>
# applies a one-off textual mutation to /repo, runs ./check, restores the file. Development aid only.
f=/repo/src/gambatools/$1; old="$2"; new="$3"; shift 4
cp "$f" /tmp/_mut_backup.py
python3 - "$f" "$old" "$new" <<'PY'
import sys
f,old,new=sys.argv[1:4]
s=open(f).read()
assert s.count(old)>=1, 'pattern not found'
open(f,'w').write(s.replace(old,new,1))
PY
cd /verif && ./check "$@" --no-evidence; rc=$?
cp /tmp/_mut_backup.py "$f"; rm -f /tmp/_mut_backup.py
git -C /repo status --short
echo "exit=$rc"
