#!/bin/bash
# tools/seedrun.sh <patch.diff> <check args...> : apply a seeded change to /repo, run ./check, undo. Development aid.
p="$(realpath "$1")"; shift
git -C /repo apply "$p" || { echo "patch does not apply"; exit 9; }
cd /verif && ./check "$@" --no-evidence; rc=$?
git -C /repo checkout -- . ; git -C /repo status --short
echo "exit=$rc"
