#!/usr/bin/env python3
"""tools/seedtable.py : markdown table of seeded changes and what the checks reported (from seeded/*/meta.json)"""
import json, os
V = '/verif/seeded'
print('| change | property | check exit | what the change is (first line of the notes) |')
print('|---|---|---|---|')
for d in sorted(os.listdir(V)):
    mp = os.path.join(V, d, 'meta.json')
    if not os.path.exists(mp):
        continue
    m = json.load(open(mp))
    db = m.get('detected_by') or {}
    txt = (m.get('breaks') or m.get('subject') or '').strip().split('\n')[0][:110].replace('|', '/')
    ex = db.get('exit')
    verdict = {1: '1 (violation reported)', 0: '0 (MISSED)', 3: '3 (inconclusive)'}.get(ex, 'not run' if ex is None else str(ex))
    print('| %s | %s | %s | %s |' % (d, m.get('property'), verdict, txt))
