#!/bin/bash
# tools/runjob.sh Cxx jobname '{"param":..}'  -- run one job in the foreground (development aid)
cd /verif; export PYTHONPATH=/verif PYTHONDONTWRITEBYTECODE=1
timeout -k 3 ${TMO:-120} .venv/bin/python -X faulthandler -c "
import sys, json, faulthandler, signal
faulthandler.register(signal.SIGTERM, all_threads=True, chain=True)
from harness import run
run.child_main('$1', '$2', sys.argv[1], '/tmp/_job_out.json', 0)
r=json.load(open('/tmp/_job_out.json'))
print(json.dumps({k:v for k,v in r.items() if k not in ('samples','functions')}, indent=1)[:${MAXOUT:-3000}])
" "${3:-{\}}"
