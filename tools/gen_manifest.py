#!/usr/bin/env python3
"""Regenerates MANIFEST.json from the table below (kept in one place so it stays valid)."""
import json, os
VERIF = os.path.dirname(os.path.dirname(os.path.abspath(__file__)))
CLAIMED = json.load(open(os.path.join(VERIF, 'tools', 'claims.json')))
props = [json.loads(l) for l in open(os.path.join(VERIF, 'properties.jsonl'))]
checks = []
na = []
for p in props:
    pid = p['id']
    c = CLAIMED.get(pid)
    if c and c.get('claimed'):
        checks.append({
            'property_id': pid,
            'quick_cmd': './check %s --tier quick' % pid,
            'thorough_cmd': './check %s --tier thorough' % pid,
            'evidence_file': '/verif/evidence/%s.json' % pid,
            'replay_cmd_template': './check %s --replay {path}' % pid,
            'engine': 'symlift',
            'level_claimed': {'category': 'model_checking', 'text': c['text'], 'design_ref': 'DESIGN.md section 4, ' + pid},
            'level_note': c['note'],
            'technique': c.get('technique', 'bounded symbolic execution of the real Python source (AST-lifted, state-merging) decided by z3 SAT queries; counterexamples replayed natively'),
        })
    else:
        na.append({'property_id': pid, 'reason': (c or {}).get('reason', 'check not built yet in this session (work in progress, see DESIGN.md section 4)')})
m = {
    'version': 1,
    'setup_cmd': './setup.sh',
    'hooks': {'guard': 'GAMBATOOLS_VERIF', 'enable': 'no source hooks are needed: the checks lift /repo/src/gambatools at import time; the variable is set for the job processes only for completeness',
              'baseline_off_cmd': 'cd /repo && /venv/bin/python -m pytest -ra -q -p no:cacheprovider --timeout=900 --continue-on-collection-errors',
              'source_commits': [], 'add_only': True},
    'engines': [{'name': 'symlift', 'path': '/verif/symlift', 'serves_properties': [c['property_id'] for c in checks],
                 'kind_free_text': 'lifted (predicated, state-merging) symbolic execution of the real gambatools source, regenerated from /repo on every run by an AST rewriter + import hook; guards are literals of a hash-consed AIG; every obligation is a SAT query to z3 5.1 (QF_UF, Booleans only); sat models are decoded and replayed against the unmodified library'},
                {'name': 'crosshair', 'path': '/verif/harness/xh', 'serves_properties': [x for x in ['C14', 'C12'] if CLAIMED.get(x, {}).get('crosshair')],
                 'kind_free_text': 'CrossHair 0.0.110 contracts on small pure str/set helpers'}],
    'checks': checks,
    'not_applicable': na,
    'notes': 'Exit codes: 0 pass, 1 reproduced violation (VIOLATION line), 3 inconclusive/harness error. Known findings: known_findings.json.',
}
json.dump(m, open(os.path.join(VERIF, 'MANIFEST.json'), 'w'), indent=1)
print('claimed', [c['property_id'] for c in checks])
