#!/usr/bin/env python3
"""tools/confirm_seed.py <PROP> <i> <worktree> : confirm a seeded change in a scratch worktree
(tests pass with it, demo fails with it, demo passes without it) and file it under /verif/seeded/."""
import json, os, shutil, subprocess, sys
prop, i, wt = sys.argv[1], sys.argv[2], sys.argv[3]
dst_i = sys.argv[4] if len(sys.argv) > 4 else i      # index under /verif/seeded (agents number their changes from 1)
sd = os.path.join(wt, 'seeded')
diff = os.path.join(sd, 'change%s.diff' % i)
demo = os.path.join(sd, 'demo%s.py' % i)
note = open(os.path.join(sd, 'note%s.txt' % i)).read() if os.path.exists(os.path.join(sd, 'note%s.txt' % i)) else ''
env = dict(os.environ, PYTHONPATH=os.path.join(wt, 'src'), PYTHONHASHSEED='0')
def sh(cmd, timeout=600):
    try:
        p = subprocess.run(cmd, shell=True, cwd=wt, env=env, capture_output=True, text=True, timeout=timeout)
        return p.returncode, (p.stdout + p.stderr)[-400:]
    except subprocess.TimeoutExpired:
        return 'timeout', ''
assert sh('git status --short -- src tests')[1].strip() == '', 'worktree not clean'
rc0, out0 = sh('/venv/bin/python %s' % demo, 120)
assert sh('git apply %s' % diff)[0] == 0, 'patch does not apply'
try:
    rct, outt = sh('/venv/bin/python -m pytest -q -p no:cacheprovider -x tests 2>&1 | tail -3')
    rc1, out1 = sh('/venv/bin/python %s' % demo, 120)
finally:
    sh('git checkout -- src tests')
ok = rc0 == 0 and rc1 != 0 and '50 passed' in outt
print('clean demo rc=%r | with change: tests=%r demo rc=%r -> %s' % (rc0, outt.strip().split('\n')[-1], rc1, 'CONFIRMED' if ok else 'NOT CONFIRMED'))
if ok:
    dst = os.path.join('/verif/seeded', '%s-%s' % (prop, dst_i))
    os.makedirs(dst, exist_ok=True)
    shutil.copy(diff, os.path.join(dst, 'patch.diff'))
    shutil.copy(demo, os.path.join(dst, 'demo.py'))
    meta = {'property': prop, 'breaks': note.strip(), 'needs_to_manifest': '', 'confirmed': {
        'worktree': 'scratch git worktree of /repo (removed afterwards)', 'tests_with_change': outt.strip().split('\n')[-1],
        'demo_with_change_rc': rc1, 'demo_without_change_rc': rc0,
        'commands': ['git apply patch.diff', 'PYTHONPATH=src /venv/bin/python -m pytest -q -p no:cacheprovider tests', 'PYTHONPATH=src /venv/bin/python demo.py']},
        'detected_by': None}
    json.dump(meta, open(os.path.join(dst, 'meta.json'), 'w'), indent=1)
sys.exit(0 if ok else 1)
